"""C03 oracle: the reader's observation log of a file emitted by the independent encoder must equal the scene."""
from .util import fnv64, norm_float, norm_val


def lim(v):
    """harness limit rendering -> scene rendering"""
    if v is None:
        return None
    if v.startswith("f32:"):
        return norm_val("s" + v[4:])
    if v.startswith("f64:"):
        return norm_val("d" + v[4:])
    return v


def cmp_dt(a, b):
    if a is None or b is None:
        return a is None and b is None
    return norm_float(a["gps"]) == norm_float(b["gps"]) and a["atomic"] == b["atomic"]


def cmp_tr(a, b):
    if a is None or b is None:
        return a is None and b is None
    return [norm_float(x) for x in a["q"]] == [norm_float(x) for x in b["q"]] and [norm_float(x) for x in a["t"]] == [norm_float(x) for x in b["t"]]


def cmp_rec(a, b):
    for k in ("ns", "name", "type"):
        if a.get(k) != b.get(k):
            return "%s %r vs %r" % (k, b.get(k), a.get(k))
    for k in ("min", "max", "scale", "offset"):
        x, y = a.get(k), b.get(k)
        if a["type"] in ("single", "double") or k in ("scale", "offset"):
            x, y = norm_float(x), norm_float(y)
        if x != y:
            return "%s %r vs %r" % (k, y, x)
    return None


def compare(scene, obs, check_points=True):
    """returns list of (rule, text)"""
    out = []
    if "panic" in obs:
        return [("panic", obs["panic"])]
    if obs.get("open") != "ok":
        return [("open-error", str(obs.get("open"))[:300])]

    def bad(rule, t):
        out.append((rule, t))

    if obs["guid"] != scene["guid"]:
        bad("root.guid", "%r vs encoded %r" % (obs["guid"], scene["guid"]))
    if obs["coordinate_metadata"] != scene.get("coord"):
        bad("root.coordinate_metadata", "%r vs encoded %r" % (obs["coordinate_metadata"], scene.get("coord")))
    if obs["library_version"] != scene.get("library_version"):
        bad("root.library_version", "%r vs %r" % (obs["library_version"], scene.get("library_version")))
    if not cmp_dt(scene.get("creation"), obs["creation"]):
        bad("root.creation", "%r vs encoded %r" % (obs["creation"], scene.get("creation")))
    # a producer may bind the E57 namespace itself to a prefix; whether the reader lists that declaration among
    # the extensions is not standard content
    ext = sorted((e["ns"], e["url"]) for e in obs["extensions"] if e["url"] != "http://www.astm.org/COMMIT/E57/2010-e57-v1.0")
    if ext != [tuple(e) for e in scene["extensions"]]:
        bad("root.extensions", "%r vs encoded %r" % (ext, scene["extensions"]))
    pcs = obs["pointclouds"]
    if len(pcs) != len(scene["pointclouds"]):
        bad("pc-count", "%d vs encoded %d" % (len(pcs), len(scene["pointclouds"])))
    for i, (a, ob) in enumerate(zip(scene["pointclouds"], pcs)):
        d = ob["desc"]
        if len(a["prototype"]) != len(d["prototype"]):
            bad("prototype-length", "pc%d %d vs %d" % (i, len(d["prototype"]), len(a["prototype"])))
        else:
            for ra, rb in zip(a["prototype"], d["prototype"]):
                x = cmp_rec(ra, rb)
                if x:
                    bad("prototype/" + x.split(" ")[0], "pc%d record %s: %s" % (i, ra["name"], x))
        if int(d["records"]) != a["records"]:
            bad("record-count", "pc%d %s vs %d" % (i, d["records"], a["records"]))
        for k in ("guid", "name", "description", "sensor_vendor", "sensor_model", "sensor_serial", "sensor_hw_version", "sensor_sw_version", "sensor_fw_version", "original_guids"):
            if d.get(k) != a.get(k):
                bad("pc." + k, "pc%d %r vs encoded %r" % (i, d.get(k), a.get(k)))
        for k in ("temperature", "humidity", "atmospheric_pressure"):
            if norm_float(d.get(k)) != norm_float(a.get(k)):
                bad("pc." + k, "pc%d %r vs encoded %r" % (i, d.get(k), a.get(k)))
        for k in ("acquisition_start", "acquisition_end"):
            if not cmp_dt(a.get(k), d.get(k)):
                bad("pc." + k, "pc%d %r vs encoded %r" % (i, d.get(k), a.get(k)))
        if not cmp_tr(a.get("transform"), d.get("transform")):
            bad("pc.transform", "pc%d %r vs encoded %r" % (i, d.get("transform"), a.get("transform")))
        for k in ("cartesian_bounds", "spherical_bounds"):
            x = [norm_float(v) for v in a[k]] if a.get(k) is not None else None
            y = [norm_float(v) for v in d[k]] if d.get(k) is not None else None
            if x != y:
                bad("pc." + k, "pc%d %r vs encoded %r" % (i, y, x))
        if (a.get("index_bounds") or None) != (d.get("index_bounds") or None) and not (a.get("index_bounds") is not None and d.get("index_bounds") is not None and list(a["index_bounds"]) == list(d["index_bounds"])):
            bad("pc.index_bounds", "pc%d %r vs encoded %r" % (i, d.get("index_bounds"), a.get("index_bounds")))
        for k in ("intensity_limits", "color_limits"):
            x = [norm_val(v) for v in a[k]] if a.get(k) is not None else None
            y = [lim(v) for v in d[k]] if d.get(k) is not None else None
            if x != y:
                bad("pc." + k, "pc%d %r vs encoded %r" % (i, y, x))
        if check_points:
            if "raw_open_err" in ob:
                bad("raw-open-error", "pc%d: %s" % (i, ob["raw_open_err"][:200]))
            else:
                if ob["raw_end"] != "none":
                    bad("raw-error", "pc%d after %d of %d points: %s" % (i, len(ob["raw"]), a["records"], ob["raw_end"][:200]))
                elif len(ob["raw"]) != a["records"]:
                    bad("raw-item-count", "pc%d yielded %d of %d" % (i, len(ob["raw"]), a["records"]))
                k = next((k for k, (x, y) in enumerate(zip(a["points"], ob["raw"])) if x != y), None)
                if k is not None:
                    j = next((j for j, (x, y) in enumerate(zip(a["points"][k].split(","), ob["raw"][k].split(","))) if x != y), 0)
                    rec = a["prototype"][j] if j < len(a["prototype"]) else {}
                    w = ""
                    if rec.get("type") in ("integer", "scaled"):
                        dd = int(rec["max"]) - int(rec["min"])
                        w = "/w%d" % (dd.bit_length() if dd > 0 else 0)
                    bad("raw-value/%s%s" % (rec.get("type"), w), "pc%d point %d record %d (%s): decoded %s encoded %s" % (i, k, j, rec.get("name"), ob["raw"][k].split(",")[j] if j < len(ob["raw"][k].split(",")) else None, a["points"][k].split(",")[j]))
    imgs = obs["images"]
    if len(imgs) != len(scene["images"]):
        bad("image-count", "%d vs encoded %d" % (len(imgs), len(scene["images"])))
    for i, (a, ob) in enumerate(zip(scene["images"], imgs)):
        d = ob["desc"]
        for k in ("guid", "name", "description", "pointcloud_guid", "sensor_vendor", "sensor_model", "sensor_serial"):
            if d.get(k) != a.get(k):
                bad("img." + k, "img%d %r vs encoded %r" % (i, d.get(k), a.get(k)))
        if not cmp_dt(a.get("acquisition"), d.get("acquisition")):
            bad("img.acquisition", "img%d" % i)
        if not cmp_tr(a.get("transform"), d.get("transform")):
            bad("img.transform", "img%d" % i)
        blobs = {b["role"]: b for b in ob["blobs"]}
        for key, dk, role in (("visual", "visual_reference", "visual"), ("proj", "projection", "proj")):
            ra, rb = a.get(key), d.get(dk)
            if (ra is None) != (rb is None):
                bad("img." + key, "img%d presence %r vs encoded %r" % (i, rb is not None, ra is not None))
                continue
            if ra is None:
                continue
            if ra["kind"] != rb["kind"] or ra["format"] != rb["format"]:
                bad("img.%s.kind" % key, "img%d %s/%s vs encoded %s/%s" % (i, rb["kind"], rb["format"], ra["kind"], ra["format"]))
                continue
            if str(rb["width"]) != ra["width"] or str(rb["height"]) != ra["height"]:
                bad("img.%s.size" % key, "img%d" % i)
            names = {"pinhole": ("focal_length", "pixel_width", "pixel_height", "principal_x", "principal_y"), "spherical": ("pixel_width", "pixel_height"), "cylindrical": ("radius", "principal_y", "pixel_width", "pixel_height"), "visual": ()}[ra["kind"]]
            for nm, v in zip(names, ra["f"]):
                if norm_float(rb.get(nm)) != norm_float(v):
                    bad("img.%s.%s" % (key, nm), "img%d %r vs encoded %r" % (i, rb.get(nm), v))
            for r2, data in ((role, ra["blob"]["data"]), (role + "_mask", ra["mask"]["data"] if ra["mask"] else None)):
                ob_b = blobs.get(r2)
                if data is None:
                    if ob_b is not None:
                        bad("img.mask", "img%d unexpected %s" % (i, r2))
                    continue
                if ob_b is None:
                    bad("img.blob-missing", "img%d %s" % (i, r2))
                elif "err" in ob_b:
                    bad("blob-read-error", "img%d %s: %s" % (i, r2, ob_b["err"][:200]))
                elif ob_b["len"] != len(data) or ob_b["fnv"] != "%016x" % fnv64(data) or int(ob_b["ret"]) != len(data):
                    bad("blob-bytes", "img%d %s: %d bytes read, %d encoded" % (i, r2, ob_b["len"], len(data)))
    return out
