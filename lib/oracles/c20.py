"""C20: the bundled command line tools preserve data end to end. The tools are built from the
workspace and run as child processes; their exit status and output files are judged against
the input (XYZ round trip), the independent CRC (check-crc), the independent decoder
(extract-xml) and the library's own observation log (unpack)."""
import os, struct, subprocess, random, json, shutil
from concurrent.futures import ThreadPoolExecutor
from e57ref import crc, decode
from .util import fnv64

TOOLS = ["e57-from-xyz", "e57-to-xyz", "e57-check-crc", "e57-extract-xml", "e57-unpack"]


def f32(v):
    return struct.unpack("<f", struct.pack("<f", v))[0]


def f32_bits(v):
    return struct.unpack("<I", struct.pack("<f", v))[0]


def gen_coord(r):
    c = r.randrange(12)
    if c == 0:
        return 0.0
    if c == 1:
        return -0.0
    if c == 2:
        return struct.unpack("<f", struct.pack("<I", r.choice([1, 0x007FFFFF, 0x80000001, 0x00800000])))[0]  # subnormals / smallest normal
    if c == 3:
        return r.choice([3.4028234663852886e38, -3.4028234663852886e38, 1.17549435e-38])
    if c == 4:
        return f32(r.randint(-10 ** 6, 10 ** 6) / 1000.0)
    if c == 5:
        return float(r.randint(-1000, 1000))
    while True:
        v = struct.unpack("<f", struct.pack("<I", r.getrandbits(32)))[0]
        if v == v and abs(v) != float("inf"):
            return v


def fmt9(v):
    s = "%.9g" % v
    return s


def make_xyz(path, r, nlines, colour_sweep=False):
    """returns the expected list of (x,y,z as f32 floats, r,g,b)"""
    exp = []
    # every third file opens with a run of black / white / one repeated colour
    special = None
    if not colour_sweep and r.random() < 0.34:
        special = (r.choice([1, 2, 5, 40]), r.choice([(0, 0, 0), (0, 0, 0), (255, 255, 255), (7, 7, 7), (0, 0, 1)]))
    with open(path, "w") as f:
        for i in range(nlines):
            kind = r.randrange(20)
            if kind == 0:
                f.write("\n")
                continue
            if kind == 1:
                f.write("%s %s %s\n" % (fmt9(gen_coord(r)), fmt9(gen_coord(r)), fmt9(gen_coord(r))))  # short line: skipped
                continue
            if kind == 2:
                f.write("1 2 3 4 5\n")  # five columns: skipped
                continue
            # the expectation is the f32 value itself (a 9-digit decimal identifies it uniquely)
            x, y, z = f32(gen_coord(r)), f32(gen_coord(r)), f32(gen_coord(r))
            if colour_sweep:
                cr, cg, cb = i % 256, (i * 7 + 3) % 256, (255 - i) % 256
            elif special is not None and i < special[0]:
                cr, cg, cb = special[1]         # a run of equal "default-looking" colours at the start
            elif special is not None and r.random() < 0.3:
                cr, cg, cb = r.choice([(0, 0, 0), (255, 255, 255), special[1]])   # and repeats later on
            else:
                cr, cg, cb = r.randrange(256), r.randrange(256), r.randrange(256)
            extra = ""
            if kind == 3:
                extra = " 17 extra columns 3.5"
            lead = " " if kind == 4 else ""
            f.write("%s%s %s %s %d %d %d%s\n" % (lead, fmt9(x), fmt9(y), fmt9(z), cr, cg, cb, extra))
            exp.append((x, y, z, cr, cg, cb))
    return exp


def run(cmd, **kw):
    return subprocess.run(cmd, stdout=subprocess.PIPE, stderr=subprocess.PIPE, timeout=120, **kw)


def xyz_roundtrip(tools, wd, idx, seed, nlines, sweep):
    """returns (problems, stats)"""
    r = random.Random(seed * 1000003 + idx)
    d = os.path.join(wd, "xyz%05d" % idx)
    os.makedirs(d, exist_ok=True)
    src = os.path.join(d, "in.xyz")
    exp = make_xyz(src, r, nlines, sweep)
    problems = []
    p = run([os.path.join(tools, "e57-from-xyz"), src])
    if p.returncode != 0:
        return [("from-xyz/exit", "e57-from-xyz failed on a well-formed XYZ file of %d lines: %s" % (nlines, p.stderr.decode(errors="replace")[-300:]))], {}
    e57 = src + ".e57"
    p = run([os.path.join(tools, "e57-to-xyz"), e57])
    if p.returncode != 0:
        return [("to-xyz/exit", "e57-to-xyz failed on the file from e57-from-xyz: %s" % p.stderr.decode(errors="replace")[-300:])], {}
    out = open(e57 + ".xyz").read().split("\n")
    if out and out[-1] == "":
        out.pop()
    if len(out) != len(exp):
        problems.append(("xyz/line-count", "%d lines out, %d valid lines in" % (len(out), len(exp))))
    for k, (line, e) in enumerate(zip(out, exp)):
        parts = line.split(" ")
        if len(parts) != 6:
            problems.append(("xyz/columns", "line %d has %d columns: %r" % (k, len(parts), line[:80])))
            break
        try:
            got = [float(parts[0]), float(parts[1]), float(parts[2])]
            col = [int(parts[3]), int(parts[4]), int(parts[5])]
        except ValueError:
            problems.append(("xyz/parse", "line %d: %r" % (k, line[:80])))
            break
        for a, (g, w) in enumerate(zip(got, e[:3])):
            if g != w or (g == 0 and struct.pack("<d", g) != struct.pack("<d", w)):
                if g == w:  # -0.0 vs 0.0: numerically unchanged
                    continue
                problems.append(("xyz/coordinate", "line %d axis %d: in %r (f32 bits %08x) out %r" % (k, a, w, f32_bits(w), g)))
                break
        if col != list(e[3:]):
            ch = next(i for i in range(3) if col[i] != e[3 + i])
            problems.append(("xyz/colour", "line %d: colour in %s out %s (value %d came back as %d)" % (k, list(e[3:]), col, e[3 + ch], col[ch])))
            break
        if problems:
            break
    shutil.rmtree(d, ignore_errors=True)
    return problems, {"lines": len(exp), "colours": set(v for e in exp for v in e[3:])}


def check_crc_tool(tools, path, img):
    p = run([os.path.join(tools, "e57-check-crc"), path])
    bad = crc.bad_pages(img)
    want_ok = len(bad) == 0 and len(img) % 1024 == 0 and len(img) > 0
    got_ok = p.returncode == 0
    if want_ok != got_ok:
        return [("check-crc/exit-status", "exit status %d but the independent CRC says bad pages = %s" % (p.returncode, bad[:5]))]
    return []


def extract_xml_tool(tools, path, img):
    p = run([os.path.join(tools, "e57-extract-xml"), path])
    scene, problems = decode.decode(img)
    if scene is None or "xml" not in scene or any(r in ("R1", "R2", "R3") for r, _ in problems):
        return []  # damaged container: nothing to compare against
    if p.returncode != 0:
        return [("extract-xml/exit", "failed on a readable file: %s" % p.stderr.decode(errors="replace")[-200:])]
    h = scene["header"]
    log = crc.logical(img)
    xl = crc.phys_to_log(h["phys_xml_offset"])
    want = log[xl:xl + h["xml_length"]]
    if p.stdout != want:
        return [("extract-xml/bytes", "stdout has %d bytes, the XML section has %d" % (len(p.stdout), len(want)))]
    return []


def rust_float_eq(text, bits, single):
    """does the decimal text denote exactly the float with these bits?"""
    try:
        v = float(text)
    except ValueError:
        return False
    if single:
        w = struct.unpack("<f", struct.pack("<I", bits))[0]
    else:
        w = struct.unpack("<d", struct.pack("<Q", bits))[0]
    if w != w:
        return v != v
    if single:
        try:
            return struct.pack("<f", v) == struct.pack("<I", bits) or (v == w)
        except OverflowError:
            return False
    return struct.pack("<d", v) == struct.pack("<Q", bits) or v == w


def unpack_tool(tools, path, obs):
    """obs = harness observation log of the same file (the library's own view)"""
    out_dir = path + "_unpacked"
    shutil.rmtree(out_dir, ignore_errors=True)
    p = run([os.path.join(tools, "e57-unpack"), path])
    problems = []
    try:
        if obs.get("open") != "ok":
            if p.returncode == 0:
                problems.append(("unpack/exit", "the library cannot open the file but e57-unpack exits 0"))
            return problems
        pc_fails = any(str(pc.get("raw_end", "none")).startswith("err") or "raw_open_err" in pc for pc in obs["pointclouds"])
        lib_fails = pc_fails or any("err" in b for im in obs["images"] for b in im["blobs"])
        if pc_fails and p.returncode == 0:
            # the library reports an error while reading the points of this file: a CSV that silently stops at the
            # error, delivered with exit status 0, is not "exactly the raw point values the library returns"
            problems.append(("unpack/exit-ok-despite-read-error", "the raw iterator of the library ends with an error on this file but e57-unpack exits 0"))
            return problems
        if p.returncode != 0:
            if not lib_fails:
                problems.append(("unpack/exit", "failed on a file the library reads completely: %s" % p.stderr.decode(errors="replace")[-200:]))
            return problems
        xml = open(os.path.join(out_dir, "metadata.xml"), "rb").read()
        if xml != obs["xml"].encode("utf-8"):
            problems.append(("unpack/xml", "metadata.xml differs from E57Reader::xml()"))
        for i, pc in enumerate(obs["pointclouds"]):
            csv = os.path.join(out_dir, "pc_%d.csv" % i)
            if not os.path.exists(csv):
                problems.append(("unpack/csv-missing", "pc_%d.csv" % i))
                continue
            lines = open(csv, encoding="utf-8", errors="replace").read().split("\n")
            if lines and lines[-1] == "":
                lines.pop()
            rows = lines[1:]
            raw = pc.get("raw", [])
            if len(rows) != len(raw):
                problems.append(("unpack/csv-rows", "pc_%d.csv has %d rows, the raw iterator yields %d" % (i, len(rows), len(raw))))
                continue
            for k, (row, want) in enumerate(zip(rows, raw)):
                cells = row.split(";") if want else ([] if row == "" else row.split(";"))
                wv = want.split(",") if want else []
                if len(cells) != len(wv):
                    problems.append(("unpack/csv-columns", "pc_%d row %d" % (i, k)))
                    break
                ok = True
                for c, w in zip(cells, wv):
                    if w[0] == "s":
                        ok = rust_float_eq(c, int(w[1:], 16), True)
                    elif w[0] == "d":
                        ok = rust_float_eq(c, int(w[1:], 16), False)
                    else:
                        ok = c == w[1:]
                    if not ok:
                        problems.append(("unpack/csv-value", "pc_%d row %d: csv %r library %s" % (i, k, c, w)))
                        break
                if not ok:
                    break
        for i, im in enumerate(obs["images"]):
            d = im["desc"]
            names = {}
            if d.get("visual_reference"):
                ext = d["visual_reference"]["format"]
                names["visual"] = "image_%d_preview.%s" % (i, ext)
                if d["visual_reference"].get("mask"):
                    names["visual_mask"] = "image_%d_preview_mask.png" % i
            if d.get("projection"):
                kind, ext = d["projection"]["kind"], d["projection"]["format"]
                names["proj"] = "image_%d_%s.%s" % (i, kind, ext)
                if d["projection"].get("mask"):
                    names["proj_mask"] = "image_%d_%s_mask.png" % (i, kind)
            blobs = {b["role"]: b for b in im["blobs"]}
            for role, fn in names.items():
                fp = os.path.join(out_dir, fn)
                if not os.path.exists(fp):
                    problems.append(("unpack/image-missing", fn))
                    continue
                data = open(fp, "rb").read()
                b = blobs.get(role)
                if b is None or "err" in b:
                    continue
                if len(data) != b["len"] or "%016x" % fnv64(data) != b["fnv"]:
                    problems.append(("unpack/image-bytes", "%s has %d bytes, the library returns %d for this blob" % (fn, len(data), b["len"])))
        return problems
    finally:
        shutil.rmtree(out_dir, ignore_errors=True)


ORDERS_SEEN = set()


def check_crc_folder(tools, wd, idx, good_files, bad_files, r):
    """folder mode: exit 0 exactly when every .e57 file in the folder (recursively) is intact.
    read_dir order is arbitrary, so several name permutations are tried."""
    problems = []

    def listing(path):
        # the order in which a recursive read_dir walk meets the files (the same readdir order the tool gets)
        out = []
        for e in os.scandir(path):
            if e.is_file():
                out.append(e.path)
            elif e.is_dir():
                out += listing(e.path)
        return out

    seen = set()
    for perm in range(10):
        if perm >= 3 and (not bad_files or not good_files or {"damaged-first", "damaged-last"} <= seen):
            break
        d = os.path.join(wd, "folder%04d_%d" % (idx, perm))
        os.makedirs(os.path.join(d, "sub"), exist_ok=True)
        members = [(f, True) for f in good_files] + [(f, False) for f in bad_files]
        r.shuffle(members)
        all_ok = True
        for k, (f, ok) in enumerate(members):
            # "all E57 files in that directory": scanner software commonly writes the extension in upper case
            ext = ["e57", "E57", "e57", "E57"][(k + perm) % 4] if (k + perm) % 2 else "e57"
            name = "%s%02d.%s" % ("abcdefgh"[(k * 3 + perm) % 8], (k * 7 + perm * 5) % 100, ext)
            dst = os.path.join(d, "sub" if k % 3 == 2 else "", name)
            shutil.copy(f, dst)
            all_ok = all_ok and ok
        order = listing(d)
        bad_names = set()
        for k, (f, ok) in enumerate(members):
            if not ok:
                ext = ["e57", "E57", "e57", "E57"][(k + perm) % 4] if (k + perm) % 2 else "e57"
                bad_names.add("%s%02d.%s" % ("abcdefgh"[(k * 3 + perm) % 8], (k * 7 + perm * 5) % 100, ext))
        if order and bad_names:
            if os.path.basename(order[0]) in bad_names:
                seen.add("damaged-first")
            if os.path.basename(order[-1]) in bad_names:
                seen.add("damaged-last")
        p = run([os.path.join(tools, "e57-check-crc"), d])
        if (p.returncode == 0) != all_ok:
            problems.append(("check-crc/folder-exit-status", "folder with %d intact and %d damaged files: exit status %d" % (len(good_files), len(bad_files), p.returncode)))
        shutil.rmtree(d, ignore_errors=True)
    ORDERS_SEEN.update(seen)
    return problems
