import struct


def fnv64(data):
    h = 0xcbf29ce484222325
    for b in data:
        h ^= b
        h = (h * 0x100000001b3) & 0xFFFFFFFFFFFFFFFF
    return h


def norm_float(s):
    """'f64:<hex>' / 'f32:<hex>' from the harness -> same with every NaN folded to 'nan'"""
    if s is None:
        return None
    if s.startswith("f64:"):
        h = s[4:]
        if h == "nan":
            return s
        v = int(h, 16)
        if (v >> 52) & 0x7FF == 0x7FF and v & ((1 << 52) - 1):
            return "f64:nan"
        return s
    if s.startswith("f32:"):
        h = s[4:]
        if h == "nan":
            return s
        v = int(h, 16)
        if (v >> 23) & 0xFF == 0xFF and v & ((1 << 23) - 1):
            return "f32:nan"
        return s
    return s


def norm_val(s):
    """value strings s%08x d%016x k.. i.. with NaN folded (for limits, which travel as XML text)"""
    if s is None:
        return None
    if s in ("snan", "dnan"):
        return s
    if s[0] == "s":
        v = int(s[1:], 16)
        if (v >> 23) & 0xFF == 0xFF and v & ((1 << 23) - 1):
            return "snan"
    if s[0] == "d":
        v = int(s[1:], 16)
        if (v >> 52) & 0x7FF == 0x7FF and v & ((1 << 52) - 1):
            return "dnan"
    return s
