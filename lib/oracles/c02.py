"""C02 oracle: files finalized by the crate's writer, judged by the independent decoder,
and decoded content compared with the intent (what was handed to the writer)."""
import json, os, sys
from e57ref import decode
from .util import fnv64, norm_float, norm_val


def cmp_record(a, b):
    """a: intent record json, b: decoded record"""
    keys = ["ns", "name", "type"]
    for k in keys:
        if a.get(k) != b.get(k):
            return "%s: %r vs %r" % (k, a.get(k), b.get(k))
    for k in ("min", "max", "scale", "offset"):
        x, y = a.get(k), b.get(k)
        if a["type"] in ("single", "double") or k in ("scale", "offset"):
            x, y = norm_float(x), norm_float(y)
        if x != y:
            return "%s: %r vs %r" % (k, x, y)
    return None


def cmp_dt(a, b):
    if a is None or b is None:
        return a is None and b is None
    return norm_float(a["gps"]) == norm_float(b["gps"]) and a["atomic"] == b["atomic"]


def cmp_tr(a, b):
    if a is None or b is None:
        return a is None and b is None
    return [norm_float(x) for x in a["q"]] == [norm_float(x) for x in b["q"]] and [norm_float(x) for x in a["t"]] == [norm_float(x) for x in b["t"]]


def check_file(path_e57, path_intent):
    """returns (problems [(rule, text)], stats dict)"""
    img = open(path_e57, "rb").read()
    intent = json.load(open(path_intent))
    scene, problems = decode.decode(img)
    problems = list(problems)
    stats = {"bytes": len(img), "rules_evaluated": 10}
    if scene is None or "root" not in scene:
        return problems, stats

    def bad(rule, text):
        problems.append((rule, text))

    r = scene["root"]
    if r["guid"] != intent["guid"]:
        bad("R10", "root guid %r vs intent %r" % (r["guid"], intent["guid"]))
    if r["coord"] != intent["coord"]:
        bad("R10", "coordinateMetadata %r vs intent %r" % (r["coord"], intent["coord"]))
    if not cmp_dt(intent["creation"], r["creation"]):
        bad("R10", "creationDateTime %r vs intent %r" % (r["creation"], intent["creation"]))
    ext_i = sorted((e["ns"], e["url"]) for e in intent["extensions"])
    if ext_i != scene["extensions"]:
        bad("R10", "extensions %r vs intent %r" % (scene["extensions"], ext_i))
    if intent.get("xml_fnv") and "%016x" % fnv64(scene["xml"].encode("utf-8")) != intent["xml_fnv"]:
        bad("R10", "XML text differs from what the transformer returned")
    pcs_i = intent["pointclouds"]
    pcs_d = scene["pointclouds"]
    if len(pcs_i) != len(pcs_d):
        bad("R7", "%d point clouds decoded, intent has %d" % (len(pcs_d), len(pcs_i)))
    points = 0
    for i, (a, b) in enumerate(zip(pcs_i, pcs_d)):
        if a.get("tainted"):
            continue
        if len(a["prototype"]) != len(b["prototype"]):
            bad("R7", "pc%d prototype length %d vs intent %d" % (i, len(b["prototype"]), len(a["prototype"])))
            continue
        for ra, rb in zip(a["prototype"], b["prototype"]):
            d = cmp_record(ra, rb)
            if d:
                bad("R7", "pc%d prototype record %s: %s" % (i, ra.get("name"), d))
        if b["records"] != len(a["points"]):
            bad("R7", "pc%d recordCount %d vs %d points handed to the writer" % (i, b["records"], len(a["points"])))
        if b["points"] is not None:
            points += len(b["points"])
            if b["points"] != a["points"]:
                k = next((k for k, (x, y) in enumerate(zip(a["points"], b["points"])) if x != y), None)
                bad("R7", "pc%d decoded values differ from the intent first at point %s: %s vs %s" % (i, k, b["points"][k] if k is not None and k < len(b["points"]) else None, a["points"][k] if k is not None else None))
            # exact stream sizes (C12): ceil(N*w/8) bytes per attribute, floats 4/8 bytes
            from e57ref import bits
            n = len(a["points"])
            for j, rec in enumerate(b["prototype"]):
                if rec["type"] == "single":
                    want = 4 * n
                elif rec["type"] == "double":
                    want = 8 * n
                else:
                    want = (n * bits.width_for(int(rec["min"]), int(rec["max"])) + 7) // 8
                got = b["info"]["stream_bytes"][j]
                if got != want:
                    bad("R7w", "pc%d attribute %s: byte stream has %d bytes, %d points of this type need exactly %d" % (i, rec["name"], got, n, want))
        for k in ("guid", "name", "description", "sensor_vendor", "sensor_model", "sensor_serial", "sensor_hw_version", "sensor_sw_version", "sensor_fw_version", "original_guids"):
            if a.get(k) != b.get(k):
                bad("R10", "pc%d.%s: %r vs intent %r" % (i, k, b.get(k), a.get(k)))
        for k in ("temperature", "humidity", "atmospheric_pressure"):
            if norm_float(a.get(k)) != norm_float(b.get(k)):
                bad("R10", "pc%d.%s: %r vs intent %r" % (i, k, b.get(k), a.get(k)))
        for k in ("acquisition_start", "acquisition_end"):
            if not cmp_dt(a.get(k), b.get(k)):
                bad("R10", "pc%d.%s: %r vs intent %r" % (i, k, b.get(k), a.get(k)))
        if not cmp_tr(a.get("transform"), b.get("transform")):
            bad("R10", "pc%d.transform: %r vs intent %r" % (i, b.get("transform"), a.get("transform")))
        for k in ("intensity_limits", "color_limits"):
            x = [norm_val(v) for v in a[k]] if a.get(k) else None
            y = [norm_val(v) for v in b[k]] if b.get(k) else None
            if x != y:
                bad("R10", "pc%d.%s: %r vs intent %r" % (i, k, y, x))
    stats["points"] = points
    imgs_i, imgs_d = intent["images"], scene["images"]
    if len(imgs_i) != len(imgs_d):
        bad("R10", "%d images decoded, intent has %d" % (len(imgs_d), len(imgs_i)))
    blobs = 0
    for i, (a, b) in enumerate(zip(imgs_i, imgs_d)):
        for k in ("guid", "name", "description", "pointcloud_guid", "sensor_vendor", "sensor_model", "sensor_serial"):
            if a.get(k) != b.get(k):
                bad("R10", "img%d.%s: %r vs intent %r" % (i, k, b.get(k), a.get(k)))
        if not cmp_dt(a.get("acquisition"), b.get("acquisition")):
            bad("R10", "img%d.acquisition" % i)
        if not cmp_tr(a.get("transform"), b.get("transform")):
            bad("R10", "img%d.transform" % i)
        for key in ("visual", "proj"):
            ra, rb = a.get(key), b.get(key)
            if (ra is None) != (rb is None):
                bad("R10", "img%d.%s presence" % (i, key))
                continue
            if ra is None:
                continue
            if ra["kind"] != rb["kind"]:
                bad("R10", "img%d.%s kind %s vs %s" % (i, key, rb["kind"], ra["kind"]))
                continue
            if ("png" if ra["png"] else "jpeg") != rb["format"]:
                bad("R10", "img%d.%s format" % (i, key))
            if str(ra["width"]) != rb["width"] or str(ra["height"]) != rb["height"]:
                bad("R10", "img%d.%s size %sx%s vs intent %sx%s" % (i, key, rb["width"], rb["height"], ra["width"], ra["height"]))
            nf = len(rb["f"])
            if [norm_float(x) for x in ra["f"][:nf]] != [norm_float(x) for x in rb["f"]]:
                bad("R10", "img%d.%s float properties %r vs intent %r" % (i, key, rb["f"], ra["f"][:nf]))
            bd = rb["blob"]
            blobs += 1
            if bd is None or bd["data"] is None:
                bad("R8", "img%d.%s blob not decodable" % (i, key))
            elif len(bd["data"]) != ra["data_len"] or "%016x" % fnv64(bd["data"]) != ra["data_fnv"]:
                bad("R8", "img%d.%s blob bytes differ from the intent" % (i, key))
            if (ra["mask_fnv"] is None) != (rb["mask"] is None):
                bad("R10", "img%d.%s mask presence" % (i, key))
            elif rb["mask"] is not None:
                blobs += 1
                if rb["mask"]["data"] is None or "%016x" % fnv64(rb["mask"]["data"]) != ra["mask_fnv"]:
                    bad("R8", "img%d.%s mask bytes differ from the intent" % (i, key))
    # standalone blobs: decode them at the descriptor the writer returned
    d = decode.Decoder(img)
    d.log = __import__("e57ref.crc", fromlist=["x"]).logical(img)
    for j, bl in enumerate(intent["blobs"]):
        blobs += 1
        data = d.blob_section(int(bl["offset"]), int(bl["length"]), "blob %d" % j)
        if data is None or "%016x" % fnv64(data) != bl["fnv"]:
            bad("R8", "standalone blob %d: bytes at its descriptor differ from the intent" % j)
    problems += [p for p in d.problems if p not in problems]
    stats["blobs"] = blobs
    return problems, stats


def worker(args):
    e57, intent = args
    try:
        return e57, check_file(e57, intent)
    except Exception as ex:  # decoder bug = infrastructure, reported as such
        import traceback
        return e57, ([("ORACLE-ERROR", traceback.format_exc()[-800:])], {})
