"""C12: the bit-level grid. Reader direction: the independent encoder writes every grid cell
(width x range shape x minimum x value set) and cuts the short stream at EVERY byte position into two
packets (and at sampled pairs into three); the crate's raw reader must decode the encoded values.
Writer direction (files written by the crate) is judged by the C02 decoder rules R7/R7w."""
import os, random, json, multiprocessing
from e57ref import encode, bits, scene as sc

VALUESETS = ["all-min", "all-max", "alternating", "walking-one", "random"]
MINKINDS = ["zero", "neg-half", "i64min", "i64max-range", "random"]
SHAPES = ["2^w-1", "2^(w-1)", "2^(w-1)+1"]


def cell_range(w, shape, minkind, r):
    if w == 0:
        m = {"zero": 0, "neg-half": -7, "i64min": -2 ** 63, "i64max-range": 2 ** 63 - 1, "random": r.randint(-10 ** 9, 10 ** 9)}[minkind]
        return m, m
    if w == 64:
        rng = {"2^w-1": 2 ** 64 - 1, "2^(w-1)": 2 ** 63, "2^(w-1)+1": 2 ** 63 + 1}[shape]
    else:
        rng = {"2^w-1": 2 ** w - 1, "2^(w-1)": 2 ** (w - 1), "2^(w-1)+1": min(2 ** (w - 1) + 1, 2 ** w - 1)}[shape]
    max_min = 2 ** 63 - 1 - rng
    mn = {"zero": 0, "neg-half": -(rng // 2), "i64min": -2 ** 63, "i64max-range": max_min, "random": r.randint(-2 ** 63, max_min)}[minkind]
    mn = max(-2 ** 63, min(mn, max_min))
    return mn, mn + rng


def cell_values(mn, mx, n, vset, w, r):
    rng = mx - mn
    out = []
    for i in range(n):
        if vset == "all-min":
            off = 0
        elif vset == "all-max":
            off = rng
        elif vset == "alternating":
            off = 0 if i % 2 == 0 else rng
        elif vset == "walking-one":
            off = min(1 << (i % max(w, 1)), rng)
        else:
            off = r.randint(0, rng)
        out.append(mn + off)
    return out


def cells(tier):
    out = []
    for w in range(65):
        shapes = SHAPES if tier == "thorough" else [SHAPES[w % 3]]
        minkinds = MINKINDS if tier == "thorough" else [MINKINDS[w % 5], MINKINDS[(w + 2) % 5]]
        for sh in shapes:
            for mk in minkinds:
                for vs in VALUESETS:
                    out.append((w, sh, mk, vs))
    return out


def build_scene(cell, seed):
    """one file per cell: one point cloud per cut position of the target stream"""
    w, sh, mk, vs = cell
    r = random.Random(hash((seed, w, SHAPES.index(sh), MINKINDS.index(mk), VALUESETS.index(vs))) & 0xFFFFFFFF if False else (seed * 1000003 + w * 1009 + SHAPES.index(sh) * 101 + MINKINDS.index(mk) * 11 + VALUESETS.index(vs)))
    mn, mx = cell_range(w, sh, mk, r)
    n = max(9, min(192 // max(w, 1), 40)) if w else 9
    vals = cell_values(mn, mx, n, vs, w, r)
    scaled = (w + VALUESETS.index(vs)) % 2 == 1
    rec = {"ns": None, "name": "intensity" if scaled else "rowIndex", "type": "scaled" if scaled else "integer", "min": str(mn), "max": str(mx)}
    if scaled:
        rec["scale"], rec["offset"] = sc.f64s(0.5), sc.f64s(0.0)
    fl = {"ns": None, "name": "cartesianX", "type": "single", "min": None, "max": None}
    # a second bit-packed attribute of another width so that phases of two streams interleave
    w2 = (w * 7 + 3) % 13
    mn2, mx2 = 0, (1 << w2) - 1 if w2 else 0
    other = {"ns": None, "name": "columnIndex", "type": "integer", "min": str(mn2), "max": str(mx2)}
    proto = [fl, rec, other]
    pre = "k" if scaled else "i"
    pts = ["s%08x,%s%d,i%d" % (r.getrandbits(32), pre, v, r.randint(mn2, mx2)) for v in vals]
    L = (n * w + 7) // 8
    L0 = 4 * n
    L2 = (n * w2 + 7) // 8
    cuts = []
    positions = list(range(0, min(L, 40) + 1)) + ([r.randint(0, L)] if L > 40 else [])
    for c in positions:
        cuts.append([[0, L0 // 2, L0], [0, c, L], [0, L2 // 2, L2]])
    # three packets at sampled pairs
    for _ in range(3):
        a, b = sorted((r.randint(0, L), r.randint(0, L)))
        cuts.append([[0, 4, 8, L0] if L0 >= 8 else [0, 0, 0, L0], [0, a, b, L], [0, 0, L2, L2]])
    # trickle: the target stream arrives one byte per packet while another stream comes complete in the first
    # (or only in the last) packet - many consecutive packets that complete no point at all
    k = min(L, 12)
    if k >= 2:
        tgt = list(range(0, k + 1)) + ([L] if k < L else [])
        npk = len(tgt) - 1
        cuts.append([[0] + [L0] * npk, tgt, [0] * npk + [L2]])
        cuts.append([[0] * npk + [L0], tgt, [0] + [L2] * npk])
    pcs = []
    for cs in cuts:
        pcs.append({"guid": "c", "prototype": proto, "points": pts, "records": n, "_cuts": cs})
    scene = {"guid": "grid", "coord": None, "creation": None, "library_version": None, "extensions": [], "pointclouds": pcs, "images": [], "blobs": []}
    phases = sorted(set((k * w) % 8 for k in range(n)))
    return scene, {"width": w, "phases": phases, "cuts": len(cuts), "stream_len": L, "values": n * len(cuts), "cut_positions": positions}


def _one(args):
    outdir, seed, idx, cell = args
    scene, info = build_scene(cell, seed)
    lay = encode.gen_layout(random.Random(idx), False)
    img, _ = encode.encode(scene, random.Random(idx), lay)
    path = os.path.join(outdir, "cell%05d.e57" % idx)
    open(path, "wb").write(img)
    info.update(file=path, idx=idx, cell=list(cell))
    return info


def produce(outdir, seed, tier):
    os.makedirs(outdir, exist_ok=True)
    cs = cells(tier)
    with multiprocessing.Pool(min(16, os.cpu_count() or 4)) as pool:
        infos = pool.map(_one, [(outdir, seed, i, c) for i, c in enumerate(cs)], chunksize=8)
    lst = os.path.join(outdir, "files.txt")
    with open(lst, "w") as f:
        for i in infos:
            f.write(i["file"] + "\n")
    return lst, infos


def compare_one(args):
    seed, info, obs = args
    from . import c03
    try:
        scene, _ = build_scene(tuple(info["cell"]), seed)
        pr = c03.compare(scene, obs)
        return info["file"], pr
    except Exception:
        import traceback
        return info["file"], [("ORACLE-ERROR", traceback.format_exc()[-800:])]
