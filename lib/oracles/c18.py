"""C18: foreign-namespace insertions must not change anything the reader reports about standard content.
For each scene a baseline file and a variant with 1..5 inserted foreign elements / attributes are encoded
with the same layout; the reader's observation logs (minus XML text, header lengths and the extension
list) must be identical."""
import os, random, json, multiprocessing
from e57ref import encode, scene as sc

FNS = "http://foreign.example.org/ns/1"
STD_NAMES = ["guid", "name", "description", "pose", "points", "prototype", "data3D", "images2D", "vectorChild", "cartesianBounds", "sphericalBounds", "indexBounds", "intensityLimits", "colorLimits", "intensityMinimum", "intensityMaximum",
             "colorRedMinimum", "xMinimum", "rowMaximum", "acquisitionStart", "acquisitionEnd", "dateTimeValue", "isAtomicClockReferenced", "temperature", "relativeHumidity", "atmosphericPressure", "sensorVendor", "sensorModel",
             "sensorSerialNumber", "originalGuids", "coordinateMetadata", "creationDateTime", "formatName", "e57LibraryVersion", "versionMajor", "e57Root", "rotation", "translation", "w", "x", "associatedData3DGuid",
             "visualReferenceRepresentation", "pinholeRepresentation", "sphericalRepresentation", "cylindricalRepresentation", "jpegImage", "pngImage", "imageMask", "imageWidth", "pixelWidth", "radius", "acquisitionDateTime"]
LAST_FORM = ["root-prefix"]
STD_ATTRS = ["fileOffset", "length", "recordCount", "type", "minimum", "maximum", "allowHeterogeneousChildren", "precision", "scale", "offset"]
SITES = ["root:first", "root:before-guid", "root:after-guid", "root:before-data3D", "data3D:between", "pc:first", "pc:after-guid", "pc:between", "pc:before-points", "pc:after-points", "root:after-data3D", "img:first", "img:between", "root:last"]


def foreign_element(r, x, name_class):
    """writes one foreign element through the Xml writer `x`"""
    if name_class == "standard-name":
        name = r.choice(STD_NAMES)
    else:
        name = "f" + "".join(r.choice("abcdefXYZ09_") for _ in range(r.randint(1, 8)))
    kind = r.choice(["string", "float", "integer", "structure", "blob-like", "vector", "nested-standard", "many-siblings"])
    # three ways to put an element into a foreign namespace: prefix declared on the root, prefix declared
    # on the element itself, or no prefix at all with the default namespace redeclared on the element
    form = r.choice(["root-prefix", "root-prefix", "local-prefix", "default-ns-redeclared"])
    if form == "default-ns-redeclared" and kind in ("string", "float", "integer", "blob-like"):
        tag = name
        ns_attr = [("xmlns", FNS + "/unprefixed")]
    elif form == "local-prefix" and kind in ("string", "float", "integer", "blob-like"):
        tag = "lp:" + name
        ns_attr = [("xmlns:lp", FNS + "/local")]
    else:
        form = "root-prefix"
        tag = "fx:" + name
        ns_attr = []
    LAST_FORM[0] = form
    if kind == "string":
        x.leaf(tag, ns_attr + [("type", "String")], encode.cdata(r.choice(["evil", "", "{00000000-FOREIGN}", "<x>"])))
    elif kind == "float":
        x.leaf(tag, ns_attr + [("type", "Float")], r.choice(["12345.5", "-1", "NaN", "1e300"]))
    elif kind == "integer":
        x.leaf(tag, ns_attr + [("type", "Integer")], r.choice(["7", "-9", "999999999999"]))
    elif kind == "blob-like":
        x.leaf(tag, ns_attr + [("type", "Blob"), ("fileOffset", r.choice([0, 48, 1020, 5])), ("length", r.choice([0, 16, 10 ** 9]))], "")
    elif kind == "many-siblings":
        # hundreds of flat foreign elements whose attribute values contain markup characters that are legal
        # inside a quoted value ('>' raw, '/>' , the other kind of quote); both empty-element forms
        n = r.choice([3, 40, 257, 300, 520])
        for k in range(n):
            val = r.choice(["intensity > 5", "a/>b", "x>y>z", ">", "/>", "-->", "]]>", "1 > 0 and 2 > 1"])
            q = '"' if x.lex["quote"] != "single" else "'"
            other = "'" if q == '"' else '"'
            val = val + (other if k % 7 == 0 else "")
            if k % 2 == 0:
                x.out.append("<fx:%s type=%sString%s expr=%s%s%s/>" % (name, q, q, q, val, q))
            else:
                x.out.append("<fx:%s expr=%s%s%s type=%sInteger%s>7</fx:%s>" % (name, q, val, q, q, q, name))
    elif kind == "vector":
        x.open(tag, [("type", "Vector"), ("allowHeterogeneousChildren", 1)])
        for _ in range(r.randint(0, 2)):
            x.leaf("fx:vectorChild", [("type", "String")], "v")
        x.close(tag)
    elif kind == "nested-standard":
        # a foreign structure that mimics a whole standard subtree
        x.open(tag, [("type", "Structure")])
        x.leaf("fx:guid", [("type", "String")], "nested-foreign-guid")
        x.open("fx:pose", [("type", "Structure")])
        x.open("fx:rotation", [("type", "Structure")])
        for k in "wxyz":
            x.leaf("fx:" + k, [("type", "Float")], "0.5")
        x.close("fx:rotation")
        x.close("fx:pose")
        x.open("fx:points", [("type", "CompressedVector"), ("fileOffset", 48), ("recordCount", 3)])
        x.open("fx:prototype", [("type", "Structure")])
        x.leaf("fx:cartesianX", [("type", "Float")], "")
        x.close("fx:prototype")
        x.close("fx:points")
        x.open("fx:cartesianBounds", [("type", "Structure")])
        x.leaf("fx:xMinimum", [("type", "Float")], "-1")
        x.close("fx:cartesianBounds")
        # whole top-level vectors nested inside the foreign structure (same foreign namespace as their parent)
        for top in ("fx:data3D", "fx:images2D"):
            if r.random() < 0.6:
                x.open(top, [("type", "Vector"), ("allowHeterogeneousChildren", 1)])
                x.open("fx:vectorChild", [("type", "Structure")])
                x.leaf("fx:guid", [("type", "String")], "foreign-child")
                x.open("fx:visualReferenceRepresentation", [("type", "Structure")])
                x.leaf("fx:jpegImage", [("type", "Blob"), ("fileOffset", 48), ("length", 1)], "")
                x.leaf("fx:imageWidth", [("type", "Integer")], "1")
                x.leaf("fx:imageHeight", [("type", "Integer")], "1")
                x.close("fx:visualReferenceRepresentation")
                x.close("fx:vectorChild")
                x.close(top)
        x.close(tag)
    else:
        x.open(tag, [("type", "Structure")])
        x.leaf("fx:" + r.choice(STD_NAMES), [("type", "String")], "inner")
        x.leaf("fx:value", [("type", "Float")], "1.25")
        x.close(tag)
    return name, kind


def make_pair(seed, i):
    s, r = sc.gen_scene(seed * 1000003 + i, max_points=40, max_pcs=2)
    lay = encode.gen_layout(r, True)
    lay["xml_first"] = False  # section offsets stay identical between baseline and variant
    lay["lex"]["element_order"] = "fixed"
    state = r.getstate()
    base_img, _ = encode.encode(s, r, lay)
    r.setstate(state)
    plan_r = random.Random(seed * 7919 + i)
    n_ins = plan_r.randint(1, 5)
    chosen = [(plan_r.choice(SITES), plan_r.choice(["standard-name", "standard-name", "random-name"])) for _ in range(n_ins)]
    log = []
    counters = {}

    def insert(x, where):
        # each chosen (site, class) fires once, at its k-th occurrence
        for j, (site, cls) in enumerate(chosen):
            if site == where and j not in counters:
                counters[j] = True
                name, kind = foreign_element(plan_r, x, cls)
                log.append({"site": where, "name_class": cls, "name": name, "kind": kind, "form": LAST_FORM[0]})

    # foreign attributes on standard elements (outside prototypes), named like standard attributes or randomly,
    # in front of or behind the standard attributes
    attr_budget = [plan_r.randint(0, 4)]

    def attrs(items):
        if attr_budget[0] > 0 and plan_r.random() < 0.08:
            attr_budget[0] -= 1
            nm = plan_r.choice(STD_ATTRS) if plan_r.random() < 0.7 else "note" + str(plan_r.randrange(100))
            val = plan_r.choice(["0", "3", "48", "1020", "Blob", "Integer", "x", "a>b", "/>", "x > 1"])
            where = plan_r.choice(["front", "behind"])
            items = ([("fx:" + nm, val)] + items) if where == "front" else (items + [("fx:" + nm, val)])
            log.append({"site": "attribute-on-standard-element", "name_class": "standard-name" if nm in STD_ATTRS else "random-name", "name": nm, "kind": "attribute-" + where, "form": "root-prefix"})
        return items

    # foreign child elements INSIDE standard leaf elements (strings, numbers, blobs), in front of or behind the text
    leaf_budget = [plan_r.choice([0, 0, 1, 2, 3])]

    def leaf(tag):
        if leaf_budget[0] > 0 and plan_r.random() < 0.06:
            leaf_budget[0] -= 1
            nm = plan_r.choice(STD_NAMES) if plan_r.random() < 0.5 else "note"
            el = '<fx:%s type="String">%s</fx:%s>' % (nm, plan_r.choice(["en", "7", "", "x y"]), nm)
            where = plan_r.choice(["front", "behind"])
            log.append({"site": "inside-leaf:" + where, "name_class": "standard-name" if nm != "note" else "random-name", "name": nm, "kind": "child-of-" + tag, "form": "root-prefix"})
            return (el, "") if where == "front" else ("", el)
        return ("", "")

    # foreign elements in front of ANY standard element of ANY structure outside prototypes (pose, rotation, bounds,
    # limits, date/time structures, image representations ...), named like the sibling they precede or like others
    sib_budget = [plan_r.choice([0, 1, 2, 4])]

    def sibling(x, before_tag):
        if sib_budget[0] > 0 and plan_r.random() < 0.04:
            sib_budget[0] -= 1
            cls = plan_r.choice(["same-as-next", "standard-name", "random-name"])
            if cls == "same-as-next":
                saved = STD_NAMES[:]
                STD_NAMES[:] = [before_tag]
                try:
                    name, kind = foreign_element(plan_r, x, "standard-name")
                finally:
                    STD_NAMES[:] = saved
            else:
                name, kind = foreign_element(plan_r, x, cls)
            log.append({"site": "before-any-sibling", "name_class": cls, "name": name, "kind": kind, "form": LAST_FORM[0]})

    hooks = {"root_attrs": [("xmlns:fx", FNS)], "insert": insert, "attrs": attrs, "leaf": leaf, "sibling": sibling}
    if plan_r.random() < 0.4:
        hooks["root_attrs"].append(("fx:note", "foreign attribute on the root"))
        log.append({"site": "root-attribute", "name_class": "attribute", "name": "note", "kind": "attribute", "form": "root-prefix"})
    var_img, _ = encode.encode(s, r, lay, hooks)
    return base_img, var_img, log


def _one(args):
    outdir, seed, i = args
    b, v, log = make_pair(seed, i)
    pb = os.path.join(outdir, "p%06d_base.e57" % i)
    pv = os.path.join(outdir, "p%06d_var.e57" % i)
    open(pb, "wb").write(b)
    open(pv, "wb").write(v)
    return {"i": i, "base": pb, "var": pv, "insertions": log}


def produce(outdir, seed, n):
    os.makedirs(outdir, exist_ok=True)
    with multiprocessing.Pool(min(16, os.cpu_count() or 4)) as pool:
        metas = pool.map(_one, [(outdir, seed, i) for i in range(n)], chunksize=8)
    lst = os.path.join(outdir, "files.txt")
    with open(lst, "w") as f:
        for m in metas:
            f.write(m["base"] + "\n" + m["var"] + "\n")
    return lst, metas


def strip(obs):
    """the part of an observation log that foreign content must not influence"""
    if obs.get("open") != "ok":
        return {"open": obs.get("open")}
    o = {k: v for k, v in obs.items() if k not in ("header", "xml", "extensions")}
    return o


def diff(a, b, path=""):
    """first difference between two JSON values as (path, a, b)"""
    if type(a) != type(b):
        return path, a, b
    if isinstance(a, dict):
        for k in sorted(set(a) | set(b)):
            if k not in a or k not in b:
                return path + "/" + k, a.get(k), b.get(k)
            d = diff(a[k], b[k], path + "/" + k)
            if d:
                return d
        return None
    if isinstance(a, list):
        if len(a) != len(b):
            return path + "/len", len(a), len(b)
        for i, (x, y) in enumerate(zip(a, b)):
            d = diff(x, y, "%s/%d" % (path, i))
            if d:
                return d
        return None
    return None if a == b else (path, a, b)


# ---------------------------------------------------------------------------------------------
# extension attributes inside a prototype: the prefix may be declared on the root (as the crate's
# writer does) or locally on any ancestor-or-self of the record; the reported prototype must not depend on it

DECL_SITES = ["root", "vectorChild", "points", "prototype", "record"]


def make_decl_pair(seed, i):
    """baseline: extension prefixes declared on the root; variant: one prefix declared at another site"""
    import re
    s, r = sc.gen_scene(seed * 7000003 + i, max_points=20, max_pcs=2, images=False)
    if not s["extensions"]:
        s["extensions"] = [("ext", "http://example.org/ext/%d" % i)]
    prefix, url = s["extensions"][0]
    # make sure an extension attribute exists, half of the time named like a standard one
    pc = s["pointclouds"][0]
    nm = r.choice(["intensity", "cartesianX", "rowIndex", "nor_x", "amplitude"])
    if not any(x["ns"] == prefix for x in pc["prototype"]):
        rec = dict(sc.gen_type(r, "any"))
        rec["ns"], rec["name"] = prefix, nm
        pc["prototype"].append(rec)
        pc["points"] = [p + "," + sc.gen_value(r, rec) if p else sc.gen_value(r, rec) for p in pc["points"]]
    lay = encode.gen_layout(r, False)
    state = r.getstate()
    base_img, _ = encode.encode(s, r, lay)
    site = random.Random(seed * 31 + i).choice(DECL_SITES[1:])
    r.setstate(state)
    # variant: build the XML with the prefix removed from the root and declared at `site` of the first point cloud
    s2 = dict(s)
    s2["extensions"] = [e for e in s["extensions"] if e[0] != prefix]
    decl = ("xmlns:" + prefix, url)
    state_count = {"vc": 0, "points": 0, "proto": 0}

    def attrs(items):
        return items

    hooks = {"decl_site": (site, decl, prefix)}
    var_img, _ = encode.encode(s2, r, lay, hooks)
    return base_img, var_img, {"site": site, "prefix": prefix, "attr_names": [x["name"] for x in pc["prototype"] if x["ns"] == prefix]}


def _one_decl(args):
    outdir, seed, i = args
    b, v, info = make_decl_pair(seed, i)
    pb = os.path.join(outdir, "d%06d_base.e57" % i)
    pv = os.path.join(outdir, "d%06d_var.e57" % i)
    open(pb, "wb").write(b)
    open(pv, "wb").write(v)
    return {"i": i, "base": pb, "var": pv, "insertions": [{"site": "namespace-declared-on:" + info["site"], "name_class": "extension-attribute", "name": ",".join(info["attr_names"]), "kind": "declaration-site", "form": "local-prefix"}]}


def produce_decl(outdir, seed, n):
    os.makedirs(outdir, exist_ok=True)
    with multiprocessing.Pool(min(16, os.cpu_count() or 4)) as pool:
        metas = pool.map(_one_decl, [(outdir, seed, i) for i in range(n)], chunksize=8)
    lst = os.path.join(outdir, "files.txt")
    with open(lst, "w") as f:
        for m in metas:
            f.write(m["base"] + "\n" + m["var"] + "\n")
    return lst, metas
