"""Per-property check plans. Each plan builds what it needs from /repo's current tree,
runs monitor workloads (Rust harness shards and/or Python oracles) and calls driver.finish."""
import json, os, subprocess, sys, time, shutil, glob
import driver
from driver import build, run_shards, finish, workdir, cleanup, log, Result, Infra, VERIF, NCPU

LEVEL = {
    "C07": "fault_enumeration", "C15": "fault_enumeration", "C16": "fault_enumeration",
}


def level(prop):
    return LEVEL.get(prop, "exploration")


def setup():
    """Build both harness profiles offline and run the self-tests of the Python reference."""
    try:
        b = build("checked")
        build("release")
        p = subprocess.run([b, "selftest"], stdout=subprocess.PIPE, text=True)
        if p.returncode != 0:
            log("harness self-test failed")
            return 2
        import e57ref.selftest as st
        ok = st.run(quiet=True)
        if not ok:
            log("e57ref calibration self-test failed")
            return 2
        os.makedirs(driver.WORK, exist_ok=True)
        log("[setup] ok")
        return 0
    except Infra as e:
        log(str(e))
        return 2


def replay(prop, path):
    rep = json.load(open(path))
    args = rep.get("harness_args")
    case = rep.get("case")
    if not args:
        log("replay file has no harness invocation (python oracle finding): " + json.dumps(rep)[:2000])
        print(json.dumps(rep, indent=1)[:4000])
        return 0
    prof = "checked" if "/checked/" in args[0] else "release"
    feats = ["crc32c"] if "target-crc32c" in args[0] else None
    b = build(prof, feats)
    cmd = [b] + args[1:]
    # strip shard/out and run exactly the one case
    clean = []
    skip = False
    for a in cmd:
        if skip:
            skip = False
            continue
        if a in ("--out", "--shard", "--start"):
            skip = True
            continue
        clean.append(a)
    clean += ["--only", str(case), "--verbose"]
    log("replaying: " + " ".join(clean))
    p = subprocess.run(clean, env=driver.ENV)
    return 1 if p.returncode not in (0,) else 0


# ----------------------------------------------------------------------------- roundtrip family

RT = {
    # prop: (mode, quick cases, quick secs, thorough cases, thorough secs)
    "C01": ("c01", 48000, 40, 2400000, 900),
    "C04": ("c04", 150000, 40, 6000000, 600),
    "C06": ("c06", 100000, 40, 6000000, 600),
    "C10": ("c10", 160000, 40, 8000000, 600),
    "C14": ("c14", 120000, 40, 8000000, 600),
}

RT_RULE = {
    "C01": "writer programs from G-PROGRAM (seeded; every 2nd case sweeps the section-start residue mod 1020 over all 255 four-aligned values, every 7th forces an integer bit width 0..64, every 157th widens a prototype by 300-3000 narrow extension attributes over 2-5 packets; blob/image sources deliver their bytes in pieces); non-trivial = finalized program with >=1 point cloud holding >=1 point; distinct = distinct program shapes (hash of item kinds, prototypes, point counts, blob lengths) among the non-trivial programs",
    "C04": "metadata-heavy programs (every setter present/absent independently, strings from 12 XML character classes (incl. markup-heavy fragments with hundreds of unclosed tags), wild floats, all image kinds, images / point clouds sharing one GUID; intensity/colour limits set, replaced or removed by the caller incl. integers beyond 2^53 are judged as metadata too; customised XML handed back with / without a final line break or with trailing blanks must be stored verbatim); non-trivial = finalized program that opened; distinct = number of distinct (field, string class) and (field, present/absent) and image-kind cells actually exercised",
    "C06": "blob-heavy programs (lengths from boundary table and random up to 5 pages; thorough: first blob length = case index mod 2101, i.e. every length 0..2100; data sources that deliver in pieces (short first piece, 7-byte pieces, alternating); after each blob a caller's writer that accepts only k bytes: Ok(n) only if n bytes arrived, and the blob reads intact afterwards; in a third of the programs some blobs are first offered through a source that fails half-way - that call must fail - and are then added again); non-trivial = blob read back and compared; distinct = distinct (blob length mod 1020) x distinct start positions mod 1020 observed, counted as distinct lengths residues + distinct position residues",
    "C10": "hostile-caller programs: rule-breaking/degenerate prototypes (17 classes, incl. prototypes of 1200..66000 records that are wider than a data packet), a device that is not empty, an empty file GUID, unfitting value vectors (arity, type, out-of-range at every width), abandoned writers, bad extension names; non-trivial = every program (each carries hostile elements or is a control); distinct = distinct program shapes incl. which calls were rejected",
    "C14": "bounds-focused programs (non-NaN; constant/increasing/decreasing/extremes-apart/sign-mixed sequences, interleaved rejected points); non-trivial = finalized program with >=1 point cloud holding >=1 point; distinct = distinct program shapes",
}


def distinct_for(prop, res):
    if prop in ("C01", "C14"):
        return len(res.nums.get("program_shape", ()))
    if prop == "C04":
        return len([k for k in res.cover if k.startswith(("str:", "field:", "img:", "limits:", "exturl:"))])
    if prop == "C06":
        return len(res.nums.get("bloblen_mod1020", ())) + len(res.nums.get("blobpos_mod1020", ()))
    if prop == "C10":
        return len(res.nums.get("program_shape", ()))
    return 0


def roundtrip(prop, tier, seed):
    t0 = time.time()
    mode, qc, qs, tc, ts = RT[prop]
    wd = workdir(prop, tier)
    res = Result()
    try:
        b = build("checked")
        cases, secs = (qc, qs) if tier == "quick" else (tc, ts)
        res.merge(run_shards(b, "roundtrip", ["--mode", mode], cases, secs, seed, tier, wd, "checked", prop))
        if tier == "thorough":
            b2 = build("release")
            res.merge(run_shards(b2, "roundtrip", ["--mode", mode], cases // 2, secs // 2, seed + 1000003, tier, wd, "release", prop))
    finally:
        cleanup(wd)
    ev = res.stats.get("programs", 0)
    assumptions = [
        "the intent model (prototype rules, point_fits, expected limits/bounds) is written from the documented rules, not from the implementation",
        "reads go through an in-memory device (M-DEV); one program in eight writes through a device that shortens every transfer; File devices are covered by C20",
        "checked profile = release optimisation + overflow checks + debug assertions",
    ]
    extra = {"points_compared": res.stats.get("rb_points", 0), "values_compared": res.stats.get("rb_values", 0),
             "fields_compared": res.stats.get("rb_fields", 0), "blobs_compared": res.stats.get("rb_blobs", 0),
             "section_start_residues_seen": len(res.nums.get("section_start_mod1020", ())),
             "integer_widths_seen": len(res.nums.get("int_width", ()))}
    return finish(prop, tier, seed, level(prop), res, RT_RULE[prop], distinct_for(prop, res), ev, assumptions, t0, extra)


# ----------------------------------------------------------------------------- generic single-workload checks

GEN = {
    # prop: dict(workload, extra, quick=(cases, secs), thorough=(cases, secs), both_profiles, rule, distinct, evaluations, assumptions)
    "C05": dict(workload="simple", extra=["--mode", "c05"], quick=(6000, 60), thorough=(150000, 600), both=True, encoder_files=(400, 8000),
                rule="files written from generated programs and files from the independent encoder in exotic layouts (tame coordinates incl. +-0, attribute subsets, invalid-state patterns incl. out-of-set values injected by renaming an extension attribute in the XML, unit-quaternion poses, extension attributes whose local names equal standard ones at any position) x ALL 64 option vectors; each simple point is compared with models::simple_point(raw point, descriptor, options); non-trivial = point cloud with >=1 point run under the 64 vectors; distinct = distinct attribute subsets observed",
                distinct=lambda r: len(r.nums.get("attr_subset", ())), evaluations=lambda r: r.stats.get("option_vectors_run", 0),
                assumptions=["only unit quaternions; derived spherical coordinates are taken from the un-posed Cartesian value", "points whose coordinates are non-finite are not judged under a pose (inf*0 differs between matrix and quaternion form)", "numeric values of normalised colour/intensity are left to C13; C05 checks presence/absence and un-normalised values exactly"]),
    "C13": dict(workload="simple", extra=["--mode", "c13"], quick=(200000, 40), thorough=(12000000, 600), both=True,
                rule="point clouds whose intensity/colour attributes take every data type (single/double open/bounded/one-sided, integer, scaled integer of widths 0..64, degenerate) x 10 limit classes (absent, complete same type, complete mixed, partial via XML line removal, equal, reversed, extreme, non-finite, complete other type, tiny/subnormal width) x sorted value ladders (for complete same-type limits incl. values exactly at both limits and single-precision limits that are no dyadic fractions; the expectation then uses the limits written, not the reader's report of them; integer limits on scaled attributes) x 4 settings of the two normalisation switches; non-trivial = (type class, limit class, switch) cell in which delivered values were checked; distinct = number of such distinct cells",
                distinct=lambda r: len([k for k in r.cover if k.startswith("cell:")]), evaluations=lambda r: r.stats.get("clouds", 0),
                assumptions=["expected value = clamp((v-min)/(max-min)) in f64 with halved operands, tolerance 2 ulp(f32) + 2e-7", "when limits are complete but of mixed/other type either candidate range is accepted; the invariants ([0,1], no NaN, monotone) are always required", "a reader that refuses unusable limits (reversed, non-finite) when the iterator is created is not a C13 matter"]),
    "C08": dict(workload="fuzz", extra=[], quick=(400000, 60), thorough=(12000000, 1200), both=True, abort_prop="C08", libfuzzer=600,
                rule="structure-aware mutants (38 operators: XML numbers/attributes/types/structure (incl. removal of whole elements) incl. NaN, inf, extreme integers, huge and empty prototypes (incl. 65 535..70 003 records of zero width), entity expansion (nested, and flat: one 64/512 KiB entity referenced thousands of times), deep nesting, bad UTF-8; file-header, section-header, packet-header, stream-length and blob-header fields set to hostile values; payload bit flips; splices; ignored-packet chains; all pages re-sealed with the harness CRC; plus unsealed flips, truncations, extensions, tiny inputs; 25% stacked twice) of 14 bundled test files and 12 generated files, each fed to validate_crc, raw_xml, E57Reader::new, all getters, raw iterator, simple iterator (all 64 option vectors for the first two seeds, 4 otherwise), descriptor and hostile blobs, size_hint before every step and the public value conversion helpers on the first yielded points; every call under catch_unwind + panic hook in a checked-arithmetic build; shard aborts are attributed to the journaled case; thorough additionally drives a coverage-guided libFuzzer target (fuzz/: input = logical stream, re-paged and sealed) for 10 minutes on 16 forks as a further workload source; non-trivial = mutated input executed; distinct = distinct input byte strings (FNV-64)",
                distinct=lambda r: len(r.nums.get("input_identity", ())), evaluations=lambda r: r.stats.get("inputs", 0),
                extra_cov=lambda r: {"inputs_opened": r.stats.get("inputs_opened", 0), "inputs_reached_packet_decoding": r.stats.get("inputs_reached_packet_decoding", 0), "simple_iterations_with_points": r.stats.get("inputs_reached_simple_points", 0),
                                     "calls_monitored": r.stats.get("calls_monitored", 0) + r.stats.get("iterator_steps_monitored", 0), "distinct_error_classes_seen": len(r.nums.get("error_class", ())), "panics": sum(v for k, v in r.sigcounts.items() if k.startswith("C08/panic")),
                                     "per_operator_inputs": {k[9:]: v for k, v in r.cover.items() if k.startswith("operator:")}},
                assumptions=["allocation-failure aborts belong to C09 (the allocator cap reports itself before aborting)", "iterators are driven to the first Err/None or to a yield cap of 20000 (raw) / 3000 (simple) items"]),
    "C09": dict(workload="fuzz", extra=[], quick=(400000, 60), thorough=(12000000, 1200), both=True, abort_prop="C09", libfuzzer=300,
                rule="same mutated inputs as C08; every public call (open, each single next() of both iterators, each blob extraction) runs under a counting global allocator (peak live bytes per call, hard cap 1.5 GiB -> abort attributed to the case), M-DEV read/byte counters reset per call and a yield counter; budgets: peak <= 256*|input| + 64 MiB, device bytes <= 64*|input| + 16 MiB, device reads <= |input|/4 + 4096, Ok items <= recordCount; a 60 s+ watchdog per shard re-runs the journaled case alone before calling it non-terminating; non-trivial = mutated input executed; distinct = distinct input byte strings",
                distinct=lambda r: len(r.nums.get("input_identity", ())), evaluations=lambda r: r.stats.get("inputs", 0),
                extra_cov=lambda r: {"calls_monitored": r.stats.get("calls_monitored", 0) + r.stats.get("iterator_steps_monitored", 0), "max_peak_bytes_in_one_call": r.stats.get("max_peak_bytes_per_call", 0), "max_peak_over_input_size": r.stats.get("max_peak_over_input_x1000", 0) / 1000.0,
                                     "max_device_reads_in_one_call": r.stats.get("max_device_reads_per_call", 0), "max_device_bytes_in_one_call": r.stats.get("max_device_read_bytes_per_call", 0), "items_yielded": r.stats.get("raw_items_yielded", 0), "slow_cases_over_2s": r.stats.get("slow_cases_over_2s", 0), "max_case_millis": r.stats.get("max_case_millis", 0)},
                assumptions=["liveness is restated as bounded progress per call; wall clock is never a verdict (watchdog hits are inconclusive unless the case still does not return alone within 300 s)", "budget constants are generous on purpose: roxmltree needs ~50-100 bytes per XML token and a 64 KiB packet of 1-bit values expands 128x"]),
    "C15": dict(workload="crash", extra=[], quick=(2500, 60), thorough=(300000, 900), both=False,
                rule="small writer programs (1-4 sections) run once on a recording device; for EVERY prefix of the recorded device writes and cut positions {1,8,16,24,32,33,34,40,47,48,49,512,1019..1023, every byte <48 for writes at offset 0, 2 random} inside the next write, the crash image (issue order, zero-filled gaps) is opened: images holding no byte written by the top-level finalize call must be rejected, accepted images must list exactly the completed file's content and every read must be Err or equal; plus the writer dropped without finalize after every item (optionally abandoning the last section writer); plus a second program started on a device that still holds the first program's complete file: either E57Writer::new refuses the used device (counted) or every prefix image of the new write, built on top of the old file, is judged by the same rule; non-trivial = crash image built and judged; distinct = distinct program shapes (each contributes all its prefixes x cuts)",
                distinct=lambda r: len(r.nums.get("program_shape", ())), evaluations=lambda r: r.stats.get("images_built", 0),
                extra_cov=lambda r: {"programs": r.stats.get("programs", 0), "images_rejected": r.stats.get("images_rejected", 0), "used_device_runs_refused_by_writer": r.stats.get("used_device_refused", 0), "used_device_runs_accepted_by_writer": r.stats.get("used_device_accepted", 0), "images_accepted_and_equal": r.stats.get("images_accepted_and_equal", 0), "write_kind_x_cut_class_cells": {k[4:]: v for k, v in r.cover.items() if k.startswith("cut:")}, "exhaustive": False, "exhaustive_part": "all prefixes of the device write sequence of every generated program"},
                assumptions=["writes reach the device in issue order (no reordering is generated)", "the recorder is validated per program: replaying all recorded writes must reproduce the completed file"]),
    "C16": dict(workload="fault", extra=[], quick=(5000, 60), thorough=(300000, 900), both=False,
                rule="small writer programs and their read suites: (a) short-transfer schedules for reads and writes independently (1 byte, alternating, fixed k, random, random with ErrorKind::Interrupted; 4 per direction quick / 16 thorough) must give byte-identical files and identical read results; (b) ONE injected device error at EVERY device operation index (read/write/seek/flush; kinds Other, UnexpectedEof/WriteZero, write returning Ok(0)) of the writer program and of the reader suite: the public call in progress (identified by the M-DEV trace) must return Err, never panic or Ok; Ok from top-level finalize implies the device image equals the fault-free file; (c) the same single faults on a device that also limits every transfer to k bytes (k in {1,3,7,64,333,1000}), so that the fault arrives in the middle of a write_all / read_exact loop (sampled: 48 positions per program and direction quick, 400 thorough); (d) the same single faults for a caller that IGNORES the failed call and carries on to the top-level finalize (64 positions per program quick, 600 thorough): whenever that finalize returns Ok the file must open and its listed content must equal, by the read-back oracle of C01/C04/C06, exactly what the calls that returned Ok were given; non-trivial = fault or schedule run; distinct = distinct program shapes",
                distinct=lambda r: len(r.nums.get("program_shape", ())), evaluations=lambda r: r.stats.get("writer_fault_runs", 0) + r.stats.get("reader_fault_runs", 0) + r.stats.get("schedules_write", 0) + r.stats.get("schedules_read", 0),
                extra_cov=lambda r: {"writer_fault_runs": r.stats.get("writer_fault_runs", 0), "reader_fault_runs": r.stats.get("reader_fault_runs", 0), "calls_observed_returning_err": r.stats.get("writer_calls_returned_err", 0) + r.stats.get("reader_calls_returned_err", 0), "faults_during_drop_exempt": r.stats.get("writer_fault_in_drop_exempt", 0), "writer_fault_runs_mid_transfer": r.stats.get("writer_fault_runs_mid_transfer", 0), "writer_fault_runs_carry_on": r.stats.get("writer_fault_runs_carry_on", 0), "carry_on_top_level_finalize_ok": r.stats.get("carry_on_finalize_ok", 0), "carry_on_files_verified_by_readback": r.stats.get("carry_on_files_verified", 0), "reader_fault_runs_mid_transfer": r.stats.get("reader_fault_runs_mid_transfer", 0),
                                     "fault_cells": {k: v for k, v in r.cover.items() if k.startswith(("writer-fault:", "reader-fault:", "writer-fault-mid-transfer:", "reader-fault-mid-transfer:", "writer-fault-carry-on:"))}, "exhaustive": False, "exhaustive_part": "every device operation index of every generated program and read suite"},
                assumptions=["errors swallowed in Drop have no return value and are exempt", "a read returning Ok(0) while data exists violates the Read contract and is not injected; write returning Ok(0) is", "a failing device operation itself transfers nothing; partial progress before the failure comes from the preceding short transfers of stage (c)"]),
    "C17": dict(workload="history", extra=[], quick=(40000, 60), thorough=(2000000, 900), both=False,
                rule="files with 2-4 point clouds (in a third of the files all with the same GUID) and 2-4 blobs (intact / one damaged data page / damaged section header / damaged blob header / page content altered and re-sealed / checksum stored byte-reversed or complemented); random sequences of 5..40 operations {raw iterate k in {0,1,half,all+2} then drop, simple iterate k with 4 option vectors, blob, blob into a failing writer, blob through a self-made descriptor with the same offset and another length, descriptors} on ONE reader over a device that in half the cases delivers short reads and in half the cases returns one transient error; every result is compared with the memoised result of the same operation on a fresh reader; non-trivial = sequence executed; distinct = distinct (sequence, damage class) identities",
                distinct=lambda r: len(r.nums.get("sequence_identity", ())), evaluations=lambda r: r.stats.get("sequences", 0),
                extra_cov=lambda r: {"operations": r.stats.get("operations", 0), "ops_failed": r.stats.get("ops_failed", 0), "ops_equal_after_earlier_failure": r.stats.get("ops_equal_after_earlier_failure", 0), "ops_hit_by_transient_device_error": r.stats.get("ops_with_transient_error", 0), "op_kind_pairs": {k[5:]: v for k, v in r.cover.items() if k.startswith("pair:")}},
                assumptions=["'earlier operations failed' includes failure by a transient device error", "the operation that itself suffers the injected device error is not compared (C16 requires it to fail)"]),
    "C11": dict(workload="pages", extra=["--all"], quick=(0, 60), thorough=(0, 900), both=False,
                quick_extra=["--depth", "4", "--random", "12000"], thorough_extra=["--depth", "5", "--random", "200000"],
                rule="page layer driven through the e57_verif hook beside a logical-stream model: ALL histories of the given depth (quick 4, thorough 5) over a 29-symbol alphabet {write_all(n) for 12 sizes around page boundaries, raw write, physical_seek to 12 position classes incl. rejected ones, flush, align, physical_position, physical_size} followed by drop, then random histories of 20..120 ops with patch-back patterns; device compared with the model at every flush point; read-side sequences {seek_physical, read(n), read_exact(n), align} on intact images and images with one damaged page; non-trivial = history with >=1 flush point checked; distinct = distinct (abstract state, op kind, abstract state) transitions observed",
                distinct=lambda r: len(r.nums.get("transition", ())), evaluations=lambda r: r.stats.get("histories_exhaustive", 0) + r.stats.get("histories_random", 0),
                extra_cov=lambda r: {"states": len(r.nums.get("abs_state", ())), "transitions": len(r.nums.get("transition", ())), "flush_points_checked": r.stats.get("flush_points_checked", 0), "read_sequences": r.stats.get("read_sequences", 0) + r.stats.get("read_sequences_damaged", 0), "exhaustive_part": "all histories of the stated depth", "exhaustive": False},
                assumptions=["abstract state = (cursor-in-page class, current page exists on device, cursor at end, page count capped at 4, cursor mod 4)", "a rejected seek is not a flush point; the model says it changes nothing and the next flush point is judged", "patterns written are never zero so that missing or misplaced bytes are visible"]),
}


def generic(prop, tier, seed):
    t0 = time.time()
    g = GEN[prop]
    wd = workdir(prop, tier)
    res = Result()
    try:
        cases, secs = g["quick"] if tier == "quick" else g["thorough"]
        b = build("checked")
        extra = g["extra"] + (g.get("quick_extra", []) if tier == "quick" else g.get("thorough_extra", []))
        res.merge(run_shards(b, g["workload"], extra, cases, secs, seed, tier, wd, "checked", prop, abort_prop=g.get("abort_prop")))
        if g.get("encoder_files"):
            # the same monitor over files from the independent encoder (all legal layouts)
            from e57ref import produce
            nq, nt = g["encoder_files"]
            lst, metas = produce.produce(os.path.join(wd, "enc"), seed, nq if tier == "quick" else nt)
            res.merge(run_shards(b, g["workload"], g["extra"] + ["--filelist", lst], len(metas), secs, seed, tier, wd, "encfiles", prop, abort_prop=g.get("abort_prop")))
            res.stats["encoder_files"] = len(metas)
        if tier == "thorough" and g.get("both"):
            b2 = build("release")
            res.merge(run_shards(b2, g["workload"], extra, cases // 2, secs // 2, seed + 1000003, tier, wd, "release", prop, abort_prop=g.get("abort_prop")))
        if tier == "thorough" and g.get("libfuzzer"):
            libfuzzer_stage(prop, seed, g["libfuzzer"], wd, res)
    finally:
        cleanup(wd)
    extra = g.get("extra_cov", lambda r: {})(res)
    if g.get("libfuzzer") and tier == "thorough":
        extra.update({"libfuzzer_executions": res.stats.get("libfuzzer_executions", 0), "libfuzzer_coverage_edges": res.stats.get("libfuzzer_coverage_edges", 0)})
    return finish(prop, tier, seed, level(prop), res, g["rule"], g["distinct"](res), g["evaluations"](res), g["assumptions"], t0, extra, exhaustive=g.get("exhaustive"))


def c07(prop, tier, seed):
    t0 = time.time()
    wd = workdir(prop, tier)
    res = Result()
    notes = {}
    try:
        files, secs, multi = (14, 150, 600) if tier == "quick" else (220, 900, 3000)
        cases = files * 12
        extra = ["--multi", str(multi)]
        b1 = build("checked")
        r1 = run_shards(b1, "crc", extra, cases, secs, seed, tier, wd, "builtin", prop)
        b2 = build("checked", ["crc32c"])
        r2 = run_shards(b2, "crc", extra, cases, secs, seed, tier, wd, "crc32c", prop)
        # both back-ends must have produced identical files and identical verdict streams
        same_cases = r1.cases == r2.cases and r1.stats.get("variants") == r2.stats.get("variants")
        for key, what in (("digest_files_sum48", "files"), ("digest_verdicts_sum48", "verdicts")):
            a, b = r1.stats.get(key), r2.stats.get(key)
            a, b = (a % (1 << 48) if a is not None else None), (b % (1 << 48) if b is not None else None)
            notes[f"backend_{what}_digest_builtin"] = a
            notes[f"backend_{what}_digest_crc32c"] = b
            if same_cases and a != b:
                v = {"prop": prop, "sig": f"{prop}/backends-differ/{what}", "detail": f"built-in and crc32c back-ends disagree on the {what} digest over the same seeded workload: {a} vs {b}", "workload": "crc", "seed": seed, "case": 0, "args": None}
                res.viols.append(v)
        if not same_cases:
            res.inconclusive.append({"why": "the two back-end runs did not cover the same cases (time cap hit); digests not compared", "cases": [r1.cases, r2.cases]})
        if set(k for k in r1.sigcounts) != set(k for k in r2.sigcounts):
            res.notes.append("violation signatures differ between back-ends")
        res.merge(r1)
        res.merge(r2)
        if tier == "thorough":
            # supplementary gate: the unsafe code of the crc32c crate under valgrind memcheck
            vg = shutil.which("valgrind")
            if vg:
                out = os.path.join(wd, "vg.jsonl")
                p = subprocess.run([vg, "-q", "--error-exitcode=9", b2, "crc", "--cases", "13", "--multi", "40", "--no-large", "1", "--case-watchdog", "3000", "--seed", str(seed), "--out", out], env=driver.ENV, stdout=subprocess.PIPE, stderr=subprocess.PIPE, text=True, timeout=3000)
                notes["valgrind_memcheck_rc"] = p.returncode
                if p.returncode == 9:
                    res.viols.append({"prop": prop, "sig": f"{prop}/valgrind-memcheck-report", "detail": p.stderr[-1500:], "workload": "crc", "seed": seed, "case": 0, "args": None})
                elif p.returncode != 0:
                    res.inconclusive.append({"why": "valgrind run failed to execute", "rc": p.returncode, "stderr": p.stderr[-400:]})
    finally:
        cleanup(wd)
    rule = ("one case = (small generated file of 2..12 pages, page): EVERY single-bit flip of the page (8192, payload and checksum bytes) plus sampled 2-/3-bit flips (same page and across pages), bursts <=32 bits at every bit phase, random overwrites and files with runs of byte-identical pages (constant blobs), one file of about 67 000 pages with a flipped bit in pages around 2^8..2^16 and in random pages (whole-file validation and the read of the covering blob must both fail), structured forgeries of the checksum field (CRC-32C little-endian, complemented, bit-reversed, rotated by 8/16/24, byte pairs swapped, CRC-32/IEEE in both byte orders, all zero, all ones; on the intact payload and on a payload with one flipped bit); on each altered image: validate_crc must fail (guaranteed classes), E57Reader::new either fails or reports exactly the intact descriptors/header/xml, then a shuffled operation sequence with repetitions (raw, simple, blobs, descriptors) where each result is Err or equal to the intact file's; stored checksums are compared with an independent bitwise CRC-32C; every iterator is called again up to three times after an Err and every Ok item (before or after an error) must be the intact file's item at that position; every file is also re-paged to 1023/1022/1021/517/514/259/2048-byte pages with the independent CRC and validate_crc / raw_xml must accept it and detect a flipped bit in a page tail (payload lengths that are not a multiple of 4); the same seeded workload runs on the built-in and on the crc32c back-end and file/verdict digests must agree; "
            "non-trivial = altered image; distinct = pages flipped exhaustively (each contributes 8192 distinct images)")
    distinct = res.stats.get("pages_flipped_exhaustively", 0)
    extra = dict(notes)
    extra.update({"variants": res.stats.get("variants", 0), "variants_open_accepted": res.stats.get("variants_open_accepted", 0), "ops_err": res.stats.get("ops_err", 0), "ops_equal": res.stats.get("ops_equal", 0),
                  "repeated_after_failure": res.stats.get("repeated_after_failure", 0), "pages_crc_checked_against_independent_crc": res.stats.get("pages_crc_checked", 0), "exhaustive": False,
                  "exhaustive_part": "all 8192 single-bit flips of every page of every generated file"})
    assumptions = ["raw_xml() is documented to use the header fields without validation (salvage tool) and is not part of the 'Err or equal' oracle", "detection is asserted only inside CRC-32C's guaranteed classes (<=3 bits per page, one burst <=32 bits); for random overwrites only 'Err or equal'; a forged checksum field differs from the big-endian CRC-32C of the page content by construction, so refusing it needs no detection guarantee", "header() is among the compared results"]
    return finish(prop, tier, seed, level(prop), res, rule, distinct, res.stats.get("variants", 0), assumptions, t0, extra)


def libfuzzer_stage(prop, seed, secs, wd, res):
    """Thorough-only extra workload source for C08/C09: a coverage-guided libFuzzer target (fuzz/) whose input is the
    logical stream of a file (paged, sealed and given a consistent header before it is parsed). The monitor is still
    the process: a crash artefact (panic/abort) is a C08 violation, an out-of-memory artefact a C09 violation, a
    timeout artefact is inconclusive (wall clock)."""
    from e57ref import crc
    fdir = os.path.join(VERIF, "fuzz", "fuzz")
    lock = os.path.join(VERIF, "fuzz", "Cargo.lock")
    if not os.path.exists(lock):
        shutil.copy(os.path.join(driver.REPO, "Cargo.lock"), lock)
    corpus = os.path.join(wd, "corpus")
    art = os.path.join(wd, "artifacts") + "/"
    os.makedirs(corpus)
    os.makedirs(art)
    n = 0
    for f in glob.glob(os.path.join(driver.REPO, "testdata", "*.e57")):
        b = open(f, "rb").read()
        if len(b) <= 60000 and len(b) % 1024 == 0:
            open(os.path.join(corpus, os.path.basename(f) + ".log"), "wb").write(crc.logical(b))
            n += 1
    env = dict(driver.ENV)
    env.pop("CARGO_NET_OFFLINE", None)  # cargo fuzz passes its own flags; the vendored registry is used anyway
    env["CARGO_NET_OFFLINE"] = "true"
    p = subprocess.run(["cargo", "+nightly", "fuzz", "build", "read_suite"], cwd=fdir, env=env, stdout=subprocess.PIPE, stderr=subprocess.STDOUT, text=True)
    if p.returncode != 0:
        res.inconclusive.append({"why": "libFuzzer target did not build (nightly toolchain / cargo-fuzz unavailable?)", "tail": p.stdout[-600:]})
        return
    cmd = ["cargo", "+nightly", "fuzz", "run", "read_suite", corpus, "--", f"-max_total_time={secs}", f"-fork={NCPU}", "-timeout=10", "-rss_limit_mb=2048", "-max_len=60000", "-len_control=0", f"-seed={seed}", f"-artifact_prefix={art}"]
    try:
        p = subprocess.run(cmd, cwd=fdir, env=env, stdout=subprocess.PIPE, stderr=subprocess.STDOUT, text=True, timeout=secs + 600)
        out = p.stdout
    except subprocess.TimeoutExpired as e:
        out = (e.stdout or b"").decode(errors="replace") if isinstance(e.stdout, bytes) else (e.stdout or "")
        res.inconclusive.append({"why": "libFuzzer run exceeded its wall-clock watchdog"})
    import re
    execs = [int(x) for x in re.findall(r"^#(\d+):", out, re.M)]
    cov = [int(x) for x in re.findall(r"cov: (\d+)", out)]
    res.stats["libfuzzer_executions"] = max(execs) if execs else 0
    res.stats["libfuzzer_coverage_edges"] = max(cov) if cov else 0
    res.stats["libfuzzer_seed_inputs"] = n
    rdir = os.path.join(VERIF, "replays", prop)
    for a in sorted(glob.glob(art + "*")):
        base = os.path.basename(a)
        kind = base.split("-")[0]
        if kind == "timeout":
            res.inconclusive.append({"why": "libFuzzer timeout artefact (wall clock, not a verdict)", "file": base})
            continue
        vprop = "C09" if kind == "oom" else "C08"
        os.makedirs(os.path.join(VERIF, "fuzz", "findings"), exist_ok=True)
        keep = os.path.join(VERIF, "fuzz", "findings", base)
        shutil.copy(a, keep)
        m = re.search(r"panicked at ([^\n]+)", out)
        res.viols.append({"prop": vprop, "sig": f"{vprop}/libfuzzer/{kind}/" + textclass(m.group(1) if m else "no-panic-message", 60), "detail": f"libFuzzer artefact {keep} (logical stream; reproduce with: cd fuzz/fuzz && cargo +nightly fuzz run read_suite {keep})", "workload": "libfuzzer", "seed": seed, "case": 0, "args": None, "files": [keep]})


PLANS = {p: roundtrip for p in RT}
PLANS.update({p: generic for p in GEN})
PLANS["C07"] = c07


def c19(prop, tier, seed):
    t0 = time.time()
    wd = workdir(prop, tier)
    res = Result()
    notes = {}
    try:
        cases, secs = (6000, 60) if tier == "quick" else (900000, 900)
        b = build("checked")
        extra = []
        enc = encoder_files(wd, seed, 40 if tier == "quick" else 600)
        if enc:
            extra = ["--filelist", enc]
        r1 = run_shards(b, "copy", extra, cases, secs, seed, tier, wd, "first", prop)
        # determinism across processes started at different times (clock with second resolution, per-process
        # hash seeds, addresses would show): a slice of the same cases again, >= 1.2 s later, other shard layout
        time.sleep(max(0.0, 1.3 - r1.stats.get("wall_s_first", 0)))
        small = min(cases, 1500)
        ra = run_shards(b, "copy", extra, small, secs, seed, tier, wd, "det_a", prop, shards=3)
        time.sleep(1.3)
        rb = run_shards(b, "copy", extra, small, secs, seed, tier, wd, "det_b", prop, shards=5)
        M = 1 << 48  # shard-wise sums are order independent only modulo 2^48
        da, db = ra.stats.get("digest_files_sum48"), rb.stats.get("digest_files_sum48")
        da, db = (da % M if da is not None else None), (db % M if db is not None else None)
        notes["cross_process_digest_a"], notes["cross_process_digest_b"] = da, db
        if ra.cases == rb.cases and da is not None and da != db:
            res.viols.append({"prop": prop, "sig": f"{prop}/nondeterministic-bytes/across-processes", "detail": f"the same seeded programs/copies produced different file digests in two processes started at different times: {da} vs {db}", "workload": "copy", "seed": seed, "case": 0, "args": None})
        elif ra.cases != rb.cases:
            res.inconclusive.append({"why": "determinism runs covered different case counts", "cases": [ra.cases, rb.cases]})
        res.merge(r1)
        if tier == "thorough":
            b2 = build("release")
            res.merge(run_shards(b2, "copy", extra, cases // 2, secs // 2, seed + 7, tier, wd, "release", prop))
    finally:
        cleanup(wd)
    rule = ("sources = the readable bundled test files (libE57Format-written and others), files from the independent Python encoder (G-LAYOUT) and generated writer programs; each is copied through the public API (descriptor fields, prototype, raw values, images, blobs), the copy's content log (offsets, XML text and library version excluded; bounds only for sources written by this writer; partial limits excluded) must equal the source's; the copy of the copy must equal the copy (bounds included); every program and every copy is produced twice in-process and a slice again in two later processes with different shard layouts: bytes/digests must be identical; "
            "non-trivial = source that was copied and compared; distinct = distinct source files (FNV-64 of their bytes)")
    extra_cov = dict(notes)
    extra_cov.update({"files_copied": res.stats.get("files_copied", 0), "skipped_not_rule_conforming": res.stats.get("skipped_not_rule_conforming", 0), "generations_compared": res.stats.get("generations_compared", 0), "byte_identical_pairs": res.stats.get("determinism_pairs", 0), "second_generation_byte_identical": res.stats.get("second_generation_byte_identical", 0)})
    assumptions = ["sources whose prototypes the writer's documented rules reject (e.g. cartesianInvalidState declared 0..1 by libE57Format) are skipped and counted", "limits are compared only when complete in the source (the writer documents that it omits partial ones)", "an absent point cloud / image GUID equals an empty one (the writer API takes the GUID as &str)"]
    return finish(prop, tier, seed, level(prop), res, rule, len(res.nums.get("source_identity", ())), res.stats.get("sources", 0), assumptions, t0, extra_cov)


def encoder_files(wd, seed, n):
    """Files from the independent encoder (if it is available yet); returns path of a list file or None."""
    try:
        from e57ref import produce
    except Exception:
        return None
    return produce.filelist(os.path.join(wd, "enc"), seed, n)


PLANS["C19"] = c19


def textclass(t, n=70):
    out, innum = [], False
    for ch in t:
        if ch.isdigit():
            if not innum:
                out.append("#")
            innum = True
        else:
            innum = False
            out.append("_" if ch == " " else ch if (ch.isalnum() or ch in "_-:.,=()[]<>+") else "")
    return "".join(out)[:n]


def c02(prop, tier, seed):
    import multiprocessing
    from oracles import c02 as oracle
    t0 = time.time()
    wd = workdir(prop, tier)
    res = Result()
    try:
        files_dir = os.path.join(wd, "files")
        os.makedirs(files_dir)
        cases, secs = (4000, 40) if tier == "quick" else (240000, 600)
        b = build("checked")
        res.merge(run_shards(b, "roundtrip", ["--mode", "c02", "--filesdir", files_dir], cases, secs, seed, tier, wd, "export", prop))
        pairs = [(f, f[:-4] + ".intent.json") for f in sorted(glob.glob(os.path.join(files_dir, "*.e57")))]
        rule_counts, decoded_bytes, points, blobs = {}, 0, 0, 0
        with multiprocessing.Pool(NCPU) as pool:
            for path, (problems, st) in pool.imap_unordered(oracle.worker, pairs, chunksize=16):
                decoded_bytes += st.get("bytes", 0)
                points += st.get("points", 0)
                blobs += st.get("blobs", 0)
                case = int(os.path.basename(path)[5:13])
                for rule, text in problems:
                    if rule == "ORACLE-ERROR":
                        raise Infra("C02 oracle crashed on %s: %s" % (path, text))
                    sig = f"{prop}/{rule}/{textclass(text)}"
                    rule_counts[rule] = rule_counts.get(rule, 0) + 1
                    res.sigcounts[sig] = res.sigcounts.get(sig, 0) + 1
                    if sum(1 for v in res.viols if v["sig"] == sig) < 3:
                        res.viols.append({"prop": prop, "sig": sig, "detail": f"file of case {case}: {text}", "workload": "roundtrip", "seed": seed, "case": case,
                                          "args": [b, "roundtrip", "--mode", "c02", "--seed", str(seed), "--tier", tier, "--filesdir", "/tmp"]})
                if len(res.samples) < 3 and st.get("points"):
                    res.samples.append({"file_case": case, "bytes": st.get("bytes"), "points_decoded": st.get("points"), "blobs_decoded": st.get("blobs"), "lint_problems": [list(p) for p in problems[:3]]})
        res.stats["files_decoded"] = len(pairs)
        res.stats["bytes_decoded"] = decoded_bytes
        res.stats["points_decoded_and_compared"] = points
        res.stats["blobs_decoded_and_compared"] = blobs
    finally:
        cleanup(wd)
    rule = ("files finalized successfully by generated writer programs (a mixture: section-start residue sweep over all 255 four-aligned residues mod 1020, metadata-heavy with wild strings and the END of the XML aimed at residues {0, 1, 4, 1016, 1019} mod 1020, blob-heavy, width-focused with rejected points in between) are exported together with their intent and decoded by the independent Python implementation e57ref (own CRC-32C, pager, bit codec, expat in namespace mode): rules R1 whole pages, R2 every page CRC, R3 header fields, R4 XML well-formed/namespaces/types, R5 offsets land on sections of the right kind outside checksums and 4-aligned, R6 section/packet tiling and padding, R7 decoded points = intent (+ exact stream byte counts), R8 blob headers (reference convention) and bytes, R9 no overlaps, R10 metadata = intent; "
            "non-trivial = exported file decoded; distinct = distinct files decoded (each generated from a distinct case seed), measured as distinct program shapes")
    extra = {"files_decoded": res.stats.get("files_decoded", 0), "bytes_decoded": res.stats.get("bytes_decoded", 0), "points_decoded_and_compared": res.stats.get("points_decoded_and_compared", 0), "blobs_decoded_and_compared": res.stats.get("blobs_decoded_and_compared", 0),
             "section_start_residues_seen": len(res.nums.get("section_start_mod1020", ())), "xml_start_residues_seen": len(res.nums.get("xml_start_mod1020", ())), "xml_end_residues_seen": len(res.nums.get("xml_end_mod1020", ())), "xml_end_exactly_on_payload_boundary": 0 in res.nums.get("xml_end_mod1020", ())}
    assumptions = ["the decoder is calibrated on the bundled reference files (all valid ones decode without a lint finding; checked by ./check --setup)", "things the statement does not list (example values inside prototype elements, spelling of non-finite floats) are not judged", "blob section length convention = 16 + length rounded up to 4, as written by libE57Format (read off testdata/tiny_pc_and_images.e57)"]
    return finish(prop, tier, seed, level(prop), res, rule, min(len(res.nums.get("program_shape", ())), res.stats.get("files_decoded", 0)), res.stats.get("files_decoded", 0), assumptions, t0, extra)


PLANS["C02"] = c02


def run_dump(b, lst, wd, tag, seed, tier, prop, extra=()):
    """dump the files of list `lst` with the harness; returns (Result, {file: obs})"""
    r = run_shards(b, "dump", ["--filelist", lst] + list(extra), 10 ** 9, 600, seed, tier, wd, tag, prop)
    obs = {}
    for f in glob.glob(os.path.join(wd, tag + "_*.jsonl.obs.jsonl")):
        for line in open(f):
            try:
                j = json.loads(line)
            except json.JSONDecodeError:
                continue
            obs[j["file"]] = j["obs"]
    return r, obs


def _c03_cmp(args):
    seed, i, path, obs = args
    from e57ref import produce
    from oracles import c03
    try:
        s, _ = produce.scene_for(seed, i)
        return path, c03.compare(s, obs)
    except Exception:
        import traceback
        return path, [("ORACLE-ERROR", traceback.format_exc()[-800:])]


def c03(prop, tier, seed):
    import multiprocessing
    from e57ref import produce
    t0 = time.time()
    wd = workdir(prop, tier)
    res = Result()
    cover = {}
    try:
        n = 1500 if tier == "quick" else 40000
        lst, metas = produce.produce(os.path.join(wd, "enc"), seed, n)
        b = build("checked")
        r, obs = run_dump(b, lst, wd, "dump", seed, tier, prop)
        res.merge(r)
        meta_by_file = {m["file"]: m for m in metas}
        jobs = [(seed, meta_by_file[f]["i"], f, o) for f, o in obs.items() if f in meta_by_file]
        missing = [f for f in meta_by_file if f not in obs]
        if missing:
            res.inconclusive.append({"why": "files without an observation log", "n": len(missing)})
        per_scene = {}
        with multiprocessing.Pool(NCPU) as pool:
            for path, problems in pool.imap_unordered(_c03_cmp, jobs, chunksize=16):
                m = meta_by_file[path]
                per_scene.setdefault(m["i"], {})[m["layout"]] = problems
                for rule, text in problems:
                    if rule == "ORACLE-ERROR":
                        raise Infra("C03 oracle crashed on %s: %s" % (path, text))
                    sig = f"{prop}/{rule}/layout={m['layout']}"
                    res.sigcounts[sig] = res.sigcounts.get(sig, 0) + 1
                    if sum(1 for v in res.viols if v["sig"] == sig) < 3:
                        res.viols.append({"prop": prop, "sig": sig, "detail": f"encoder file #{m['i']} ({m['layout']} layout; packets={m['packets']}, packet kinds {m['packet_kinds']}, lexical {m['lexical']}): {text}", "workload": "dump", "seed": seed, "case": m["i"], "args": None})
        for m in metas:
            for k in m["lexical"]:
                cover["lexical:" + k] = cover.get("lexical:" + k, 0) + 1
            for k, v in m["packet_kinds"].items():
                cover["packets:" + k] = cover.get("packets:" + k, 0) + v
            for k in m["split_shapes"]:
                cover["split:" + k] = cover.get("split:" + k, 0) + 1
            cover["layout:" + m["layout"]] = cover.get("layout:" + m["layout"], 0) + 1
            if m["xml_first"]:
                cover["xml-before-sections"] = cover.get("xml-before-sections", 0) + 1
                cover["last-section-end:" + m.get("tail", "free")] = cover.get("last-section-end:" + m.get("tail", "free"), 0) + 1
            res.nums.setdefault("section_start_mod1020", set()).update(m["start_residues"])
            res.nums.setdefault("xml_start_mod1020", set()).add(m["xml_start_residue"])
        res.cover.update(cover)
        res.stats["files_compared"] = len(jobs)
        res.samples = [{"file": os.path.basename(m["file"]), "layout": m["layout"], "packets": m["packets"], "packet_kinds": m["packet_kinds"], "lexical": m["lexical"]} for m in metas[:3]]
    finally:
        cleanup(wd)
    rule = ("random scenes (1-3 point clouds with every type/width, images of all kinds, standalone blobs, wild strings) encoded by the independent Python encoder in an exotic legal layout (random/unequal/run-ahead splits of every attribute stream incl. empty streams and values straddling packets; index and ignored packets before/between/after data packets; trailing index packet with index offset; sections in shuffled order with no/small/page-edge/random padding; XML before or after the sections, and when the XML comes first the last section ending exactly on / 4 bytes before / 4 bytes after the end of the last page's payload; "
            "lexical variants: the E57 namespace as default namespace or bound to a prefix, with / without a final newline, comments inside leaf elements in front of / behind their text, attribute order and quote style, CDATA vs escaped vs numeric character references vs mixed, empty-element tags, whitespace/indentation/comments between elements, XML declaration variants, trailing spaces, omitted optional type attributes, shuffled element order inside structures) and, as control, in a plain layout; the crate's reader dumps everything it reports and the dump is compared with the scene; non-trivial = file compared; distinct = distinct scenes x 2 layouts")
    extra = {"files_compared": res.stats.get("files_compared", 0), "layout_features_exercised": {k: v for k, v in sorted(cover.items())}}
    assumptions = ["layouts are restricted to what the format defines (continuous byte stream per attribute, packet length incl. header and padding, reserved bytes zero) and the encoder is calibrated: e57ref.decode must accept and reproduce every file it emits (./check --setup)", "lexical variants preserve the infoset; whitespace inside numeric leaves, comments inside leaf values and DTDs are excluded"]
    return finish(prop, tier, seed, level(prop), res, rule, res.stats.get("files_compared", 0), res.stats.get("files_compared", 0), assumptions, t0, extra)


PLANS["C03"] = c03


def c12(prop, tier, seed):
    import multiprocessing
    from oracles import c12 as grid, c02 as dec
    t0 = time.time()
    wd = workdir(prop, tier)
    res = Result()
    try:
        b = build("checked")
        # ---- reader direction: independent encoder -> crate reader
        lst, infos = grid.produce(os.path.join(wd, "grid"), seed, tier)
        r, obs = run_dump(b, lst, wd, "dump", seed, tier, prop)
        res.merge(r)
        by_file = {i["file"]: i for i in infos}
        jobs = [(seed, by_file[f], o) for f, o in obs.items() if f in by_file]
        wp = set()
        cutpos = set()
        values = 0
        for i in infos:
            for ph in i["phases"]:
                wp.add(i["width"] * 8 + ph)
            cutpos.update(i["cut_positions"])
            values += i["values"]
        with multiprocessing.Pool(NCPU) as pool:
            for path, problems in pool.imap_unordered(grid.compare_one, jobs, chunksize=8):
                info = by_file[path]
                for rule, text in problems:
                    if rule == "ORACLE-ERROR":
                        raise Infra("C12 oracle crashed: " + text)
                    sig = f"{prop}/reader/{rule}"
                    res.sigcounts[sig] = res.sigcounts.get(sig, 0) + 1
                    if sum(1 for v in res.viols if v["sig"] == sig) < 3:
                        res.viols.append({"prop": prop, "sig": sig, "detail": f"grid cell {info['cell']} (stream of {info['stream_len']} bytes, {info['cuts']} packetisations): {text}", "workload": "dump", "seed": seed, "case": info["idx"], "args": None})
        res.stats["reader_cells"] = len(jobs)
        res.stats["reader_values_compared"] = values
        # ---- writer direction: crate writer -> independent bit-level decoder
        files_dir = os.path.join(wd, "wfiles")
        os.makedirs(files_dir)
        ncases = 325 * (8 if tier == "quick" else 64)
        rw = run_shards(b, "roundtrip", ["--mode", "c12w", "--filesdir", files_dir], ncases, 300, seed, tier, wd, "c12w", prop)
        res.merge(rw)
        pairs = [(f, f[:-4] + ".intent.json") for f in sorted(glob.glob(os.path.join(files_dir, "*.e57")))]
        wpoints = 0
        with multiprocessing.Pool(NCPU) as pool:
            for path, (problems, st) in pool.imap_unordered(dec.worker, pairs, chunksize=16):
                wpoints += st.get("points", 0)
                case = int(os.path.basename(path)[5:13])
                for rule, text in problems:
                    if rule == "ORACLE-ERROR":
                        raise Infra("C12 writer-direction oracle crashed: " + text)
                    if rule not in ("R7", "R7w", "R6"):
                        continue  # other rules belong to C02
                    sig = f"{prop}/writer/{rule}/{textclass(text, 50)}"
                    res.sigcounts[sig] = res.sigcounts.get(sig, 0) + 1
                    if sum(1 for v in res.viols if v["sig"] == sig) < 3:
                        res.viols.append({"prop": prop, "sig": sig, "detail": f"file of case {case} (width {case % 65}, value set {(case // 65) % 5}): {text}", "workload": "roundtrip", "seed": seed, "case": case, "args": [b, "roundtrip", "--mode", "c12w", "--seed", str(seed), "--tier", tier]})
        res.stats["writer_files_decoded"] = len(pairs)
        res.stats["writer_points_decoded"] = wpoints
        res.samples = [{"direction": "reader", "cell": i["cell"], "stream_bytes": i["stream_len"], "packetisations": i["cuts"], "bit_phases": i["phases"]} for i in infos[100:103]]
        wp_w = res.nums.get("width_phase", set())
    finally:
        cleanup(wd)
    rule = ("grid = widths 0..64 x range shapes {2^w-1, 2^(w-1), 2^(w-1)+1} x minimum {0, -range/2, i64::MIN, i64::MAX-range, random} x value sets {all-min, all-max, alternating, walking one, random} (quick: one shape and two minima per width). Reader direction: the independent encoder writes each cell with the target stream cut at EVERY byte position (<=40) into two packets and at sampled pairs into three, beside a float stream and a second bit-packed stream; the crate's raw reader must return the encoded values. The target stream is also trickled one byte per packet (up to 13 packets) while another stream arrives complete in the first or only in the last packet. Both directions also get point clouds of 65 535..200 000 points of 1-7 bits each, i.e. far more than 2^16 values of one byte stream in a single packet. "
            "Writer direction: the crate writes point clouds with a record of the focused width and the value set; the independent decoder requires stream length = ceil(N*w/8) (floats 4/8 bytes) and value-min in w bits LSB-first contiguous across bytes and packets; non-trivial = grid cell executed; distinct = distinct cells (reader) + distinct (width, value set) cells (writer)")
    distinct = res.stats.get("reader_cells", 0) + len(res.nums.get("grid_cell", ()))
    extra = {"reader_cells": res.stats.get("reader_cells", 0), "reader_width_phase_pairs": len(wp), "reader_cut_positions": len(cutpos), "reader_values_compared": res.stats.get("reader_values_compared", 0),
             "writer_files_decoded": res.stats.get("writer_files_decoded", 0), "writer_points_decoded": res.stats.get("writer_points_decoded", 0), "writer_width_phase_pairs": len(wp_w), "writer_cells": len(res.nums.get("grid_cell", ())),
             "exhaustive": tier == "thorough", "exhaustive_part": "the stated grid x every byte cut position of the short stream"}
    assumptions = ["impossible (width, phase) pairs (e.g. even widths never start at odd bit phases) are not counted as missing", "the codec used as oracle (e57ref.bits) is big-integer based and shares nothing with the crate's byte-wise implementation"]
    return finish(prop, tier, seed, level(prop), res, rule, distinct, res.stats.get("reader_cells", 0) + res.stats.get("writer_files_decoded", 0), assumptions, t0, extra)


PLANS["C12"] = c12


def c18(prop, tier, seed):
    import multiprocessing, re
    from oracles import c18 as orc
    t0 = time.time()
    wd = workdir(prop, tier)
    res = Result()
    cover = {}
    try:
        b = build("checked")
        # (a) foreign-namespace insertions (independent encoder) -> reader dumps of baseline and variant must agree
        n = 1200 if tier == "quick" else 120000
        lst, metas = orc.produce(os.path.join(wd, "pairs"), seed, n)
        r, obs = run_dump(b, lst, wd, "dump", seed, tier, prop)
        res.merge(r)
        # pairs that differ only in WHERE the prefix of an extension attribute is declared (root vs. local)
        lst2, metas2 = orc.produce_decl(os.path.join(wd, "decl"), seed, max(200, n // 4))
        r2, obs2 = run_dump(b, lst2, wd, "dumpdecl", seed, tier, prop)
        res.merge(r2)
        obs.update(obs2)
        metas = metas + metas2
        compared = 0
        for m in metas:
            if m["base"] not in obs or m["var"] not in obs:
                res.inconclusive.append({"why": "pair without observation logs", "i": m["i"]})
                continue
            a, v = orc.strip(obs[m["base"]]), orc.strip(obs[m["var"]])
            for ins in m["insertions"]:
                key = "site:%s|%s|%s|%s" % (ins["site"], ins["name_class"], ins["kind"], ins.get("form", ""))
                cover[key] = cover.get(key, 0) + 1
            if a.get("open") != "ok":
                res.inconclusive.append({"why": "baseline file of a pair does not open", "i": m["i"], "err": str(a)[:200]})
                continue
            compared += 1
            if v.get("open") != "ok":
                sig = f"{prop}/variant-unreadable/" + textclass(str(v.get("open")), 60)
                d = ("variant", "opens", str(v.get("open"))[:300])
            else:
                d = orc.diff(a, v)
                sig = f"{prop}/standard-content-changed" + re.sub(r"\d+", "#", d[0]) if d else None
            if d:
                res.sigcounts[sig] = res.sigcounts.get(sig, 0) + 1
                if sum(1 for x in res.viols if x["sig"] == sig) < 3:
                    res.viols.append({"prop": prop, "sig": sig, "detail": f"pair #{m['i']}: insertions {m['insertions']}: {d[0]}: without insertions {str(d[1])[:160]!r}, with insertions {str(d[2])[:160]!r}", "workload": "dump", "seed": seed, "case": m["i"], "args": None})
        res.stats["pairs_compared"] = compared
        res.cover.update(cover)
        res.samples = [{"pair": m["i"], "insertions": m["insertions"]} for m in metas[:3]]
        # (b) extension attributes inside prototypes through the crate's own writer
        cases, secs = (20000, 40) if tier == "quick" else (600000, 300)
        res.merge(run_shards(b, "roundtrip", ["--mode", "c18"], cases, secs, seed, tier, wd, "extattr", prop))
    finally:
        cleanup(wd)
    rule = ("(a) scenes encoded twice with the same layout by the independent encoder: once plain, once with 1-5 elements of a foreign namespace inserted at 14 kinds of sites outside prototypes (before/after/between standard siblings at root, data3D, point cloud and image level), with local names equal to standard names (52 names) or random, as leaves of every type, vectors, structures, structures mimicking whole standard subtrees foreign child elements INSIDE standard leaf elements (in front of / behind their text), foreign elements in front of ANY standard element of ANY structure (pose, rotation, bounds, limits, date/time, image representations; named like the element they precede, like another standard element, or randomly), and runs of 3-520 flat empty elements whose attribute values contain '>', '/>', '-->', ']]>' or the other kind of quote, in three namespace forms (prefix declared on the root, prefix declared locally, default namespace redeclared on the element), plus foreign attributes - also named like standard attributes (fileOffset, length, recordCount, type ...) in front of or behind the standard ones - on the root and on standard elements; the reader's dumps (minus XML text, header lengths, extension list) must be identical; "
            "(a2) pairs that differ only in where the prefix of an extension attribute is declared (root / vectorChild / points / prototype / the record itself); (b) writer programs whose prototypes carry extension attributes over all accepted names and namespaces, half of them named like standard attributes; prototype, values and all standard descriptors must read back unchanged; non-trivial = pair compared / program read back; distinct = distinct (site, name class, element kind) cells + pairs")
    distinct = len([k for k in cover if k.startswith("site:")]) + res.stats.get("pairs_compared", 0)
    extra = {"pairs_compared": res.stats.get("pairs_compared", 0), "insertion_cells": len([k for k in cover if k.startswith("site:")]), "ext_attr_programs": res.stats.get("programs", 0), "ext_attrs_with_standard_names": res.cover.get("ext-attr:standard-name", 0), "ext_attrs_other": res.cover.get("ext-attr:other-name", 0)}
    assumptions = ["insertions are well-formed and carry a type attribute like every E57 element", "two prefixes bound to one namespace URI are not generated (same XML namespace)", "the extension list and the XML text legitimately change with an insertion and are excluded"]
    return finish(prop, tier, seed, level(prop), res, rule, distinct, res.stats.get("pairs_compared", 0) + res.stats.get("programs", 0), assumptions, t0, extra)


PLANS["C18"] = c18


def build_tools():
    tdir = os.path.join(driver.WORK, "tools-target")
    os.makedirs(tdir, exist_ok=True)
    from oracles import c20
    cmd = ["cargo", "build", "--offline", "--release"]
    for t in c20.TOOLS:
        cmd += ["-p", t]
    env = dict(driver.ENV, CARGO_TARGET_DIR=tdir)
    t = time.time()
    p = subprocess.run(cmd, cwd=driver.REPO, env=env, stdout=subprocess.PIPE, stderr=subprocess.STDOUT, text=True)
    if p.returncode != 0:
        log(p.stdout[-4000:])
        raise Infra("BUILD-FAILED: the bundled tools do not build from the workspace")
    log(f"[build] tools ok in {time.time()-t:.1f}s")
    return os.path.join(tdir, "release")


def c20(prop, tier, seed):
    import random
    from concurrent.futures import ThreadPoolExecutor
    from oracles import c20 as orc
    from e57ref import produce
    t0 = time.time()
    wd = workdir(prop, tier)
    res = Result()
    cover = {}

    def add(sig_tail, detail, case):
        sig = f"{prop}/{sig_tail}"
        res.sigcounts[sig] = res.sigcounts.get(sig, 0) + 1
        if sum(1 for x in res.viols if x["sig"] == sig) < 3:
            res.viols.append({"prop": prop, "sig": sig, "detail": detail, "workload": "tools", "seed": seed, "case": case, "args": None})

    try:
        tools = build_tools()
        b = build("checked")
        # ---- XYZ -> E57 -> XYZ
        nxyz = 120 if tier == "quick" else 4000
        sizes = [0, 1, 2, 3, 50, 256, 300, 1000]
        jobs = []
        for i in range(nxyz):
            n = sizes[i % len(sizes)] if i % 37 else (20000 if tier == "thorough" else 5000)
            jobs.append((i, n, (i % len(sizes)) == 5))
        colours = set()
        lines = 0
        with ThreadPoolExecutor(NCPU) as ex:
            for (i, n, sweep), (problems, st) in zip(jobs, ex.map(lambda j: orc.xyz_roundtrip(tools, wd, j[0], seed, j[1], j[2]), jobs)):
                lines += st.get("lines", 0)
                colours |= st.get("colours", set())
                for rule, text in problems:
                    add(rule, f"xyz file #{i} ({n} lines): {text}", i)
        res.stats["xyz_runs"] = len(jobs)
        res.stats["xyz_points_compared"] = lines
        cover["colour_values_covered"] = len(colours)
        # ---- E57 inputs: independent encoder + crate writer, intact and with one damaged page
        nfiles = 60 if tier == "quick" else 1500
        lst, metas = produce.produce(os.path.join(wd, "enc"), seed, nfiles)
        files = [m["file"] for m in metas]
        wdir = os.path.join(wd, "wfiles")
        os.makedirs(wdir)
        res.merge(run_shards(b, "roundtrip", ["--mode", "c02", "--filesdir", wdir], nfiles, 120, seed, tier, wd, "export", prop))
        files += sorted(glob.glob(os.path.join(wdir, "*.e57")))
        rr = random.Random(seed)
        damaged = []
        for f in files[::3]:
            img = bytearray(open(f, "rb").read())
            pg = rr.randrange(len(img) // 1024)
            img[pg * 1024 + rr.randrange(1024)] ^= 1 << rr.randrange(8)
            fd = f[:-4] + "_damaged.e57"
            open(fd, "wb").write(img)
            damaged.append(fd)
        # files whose pages are all intact but whose XML no parser accepts (mismatched end tag, cut, stray '<'):
        # the checksum tool must accept them and the extraction tool must still emit the XML section
        from e57ref import crc as _crc
        xmlbroken = []
        for f in files[1::4]:
            img = open(f, "rb").read()
            if len(img) % 1024 or len(img) < 2048:
                continue
            log = bytearray(_crc.logical(img))
            xo = _crc.phys_to_log(int.from_bytes(img[24:32], "little"))
            xl = int.from_bytes(img[32:40], "little")
            xml = bytes(log[xo:xo + xl])
            how = rr.randrange(3)
            if how == 0 and b"</e57Root>" in xml:
                k = xml.rindex(b"</e57Root>")
                new = xml[:k] + b"</e57Rood>" + xml[k + 10:]
            elif how == 1 and len(xml) > 40:
                k = rr.randrange(20, len(xml) - 10)
                new = xml[:k] + b"<" + xml[k + 1:]
            else:
                new = xml[:len(xml) // 2] + b" " * (len(xml) - len(xml) // 2)
            if len(new) != len(xml) or new == xml:
                continue
            log[xo:xo + xl] = new
            fb = f[:-4] + "_xmlbroken.e57"
            open(fb, "wb").write(_crc.paged(bytes(log)))
            xmlbroken.append(fb)
        cover["e57_inputs:xml-unparseable-but-pages-intact"] = len(xmlbroken)
        allf = files + damaged + xmlbroken
        lst2 = os.path.join(wd, "all.txt")
        open(lst2, "w").write("\n".join(allf) + "\n")
        r, obs = run_dump(b, lst2, wd, "dump", seed, tier, prop)
        res.merge(r)

        def one(f):
            img = open(f, "rb").read()
            out = []
            out += orc.check_crc_tool(tools, f, img)
            out += orc.extract_xml_tool(tools, f, img)
            if f in obs:
                out += orc.unpack_tool(tools, f, obs[f])
            return f, out

        with ThreadPoolExecutor(NCPU) as ex:
            for f, problems in ex.map(one, allf):
                kind = "damaged" if f.endswith("_damaged.e57") else ("xmlbroken" if f.endswith("_xmlbroken.e57") else ("encoder" if "/enc/" in f else "writer"))
                cover["e57_inputs:" + kind] = cover.get("e57_inputs:" + kind, 0) + 1
                for rule, text in problems:
                    add(rule, f"{kind} file {os.path.basename(f)}: {text}", 0)
        # check-crc in folder mode: intact / damaged files mixed in several orders
        nfold = 12 if tier == "quick" else 200
        small = [f for f in files if os.path.getsize(f) <= 16384][:60]
        small_bad = [f for f in damaged if os.path.getsize(f) <= 16384][:60]
        fjobs = []
        for k in range(nfold):
            ng = rr.randrange(0, 4)
            nb = rr.randrange(0, 3) if k % 4 else 0
            if not small or (nb and not small_bad):
                continue
            fjobs.append((k, [rr.choice(small) for _ in range(ng)], [rr.choice(small_bad) for _ in range(nb)]))
        with ThreadPoolExecutor(NCPU) as ex:
            for (k, g, bd), problems in zip(fjobs, ex.map(lambda j: orc.check_crc_folder(tools, wd, j[0], j[1], j[2], random.Random(seed * 97 + j[0])), fjobs)):
                cover["check_crc_folder:%d-good-%d-bad" % (len(g), len(bd))] = cover.get("check_crc_folder:%d-good-%d-bad" % (len(g), len(bd)), 0) + 1
                for rule, text in problems:
                    add(rule, text, k)
        res.stats["tool_runs"] = len(jobs) * 2 + len(allf) * 3 + 3 * len(fjobs)
        res.stats["e57_files"] = len(allf)
        res.cover.update(cover)
        res.samples = [{"xyz_file": j[0], "lines": j[1], "colour_sweep": j[2]} for j in jobs[:2]] + [{"e57_file": os.path.basename(f)} for f in allf[:2]]
    finally:
        cleanup(wd)
    rule = ("the five tools are built from the workspace and run as child processes. XYZ files (0..20000 lines; single-space separated; coordinates = random finite f32 bit patterns, extremes, subnormals, +-0 printed with 9 significant digits; colours incl. a sweep over all 256 values and files opening with a run of black / white / one repeated colour; extra columns, leading space, blank and short lines) go through e57-from-xyz | e57-to-xyz and must come back numerically unchanged and in order; "
            "E57 files from the independent encoder and from the crate's writer, intact and with one flipped bit: e57-check-crc's exit status must equal the verdict of the independent CRC (single files, and folders mixing intact and damaged files in several directory orders, extensions .e57 and .E57), e57-extract-xml's stdout must equal the XML section located by the independent decoder (incl. XML without line breaks, without a final newline and with 1500 trailing spaces, and files whose pages are intact but whose XML no parser accepts), e57-unpack's metadata.xml / CSV values / image files must equal what the library reports (harness observation log) and it must not exit 0 on a file whose points the library cannot read to the end; non-trivial = tool run judged; distinct = distinct input files")
    assumptions = ["XYZ lines with fewer than six columns are skipped (documented); colour is columns 4-6", "check-crc is only run on files of whole-page size", "CSV numbers are compared numerically with the exact bit patterns (textual form is the tools' choice)"]
    extra = {"xyz_points_compared": res.stats.get("xyz_points_compared", 0), "colour_values_covered": cover.get("colour_values_covered", 0), "tool_runs": res.stats.get("tool_runs", 0), "e57_inputs": {k[11:]: v for k, v in cover.items() if k.startswith("e57_inputs:")}}
    return finish(prop, tier, seed, level(prop), res, rule, res.stats.get("xyz_runs", 0) + res.stats.get("e57_files", 0), res.stats.get("tool_runs", 0), assumptions, t0, extra)


PLANS["C20"] = c20


def run(prop, tier, seed):
    if prop not in PLANS:
        log(f"no check registered for {prop}")
        return 2
    return PLANS[prop](prop, tier, seed)
