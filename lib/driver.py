#!/usr/bin/env python3
"""Driver of the /verif checks: builds the harness from /repo's current tree, runs the
workload shards of one property, collects monitor events, filters known findings, writes
the evidence file and prints VIOLATION / KNOWN-FINDING lines.

Exit codes: 0 held on everything observed (possibly with KNOWN-FINDING lines),
            1 at least one violation not listed in known_findings.json,
            2 infrastructure failure (build failed, nothing observed, harness error)."""
import json, os, subprocess, sys, time, shutil, glob, hashlib, signal

VERIF = os.path.dirname(os.path.dirname(os.path.abspath(__file__)))
HARNESS = os.path.join(VERIF, "harness")
WORK = os.path.join(VERIF, "work")
REPO = "/repo"
NCPU = int(os.environ.get("VERIF_JOBS", "0")) or min(16, os.cpu_count() or 4)
ENV = dict(os.environ, CARGO_NET_OFFLINE="true")

sys.path.insert(0, os.path.join(VERIF, "lib"))


def log(*a):
    print(*a, file=sys.stderr, flush=True)


class Infra(Exception):
    pass


SOLO_LIMIT_S = int(os.environ.get("VERIF_SOLO_LIMIT_S", "300"))


# ----------------------------------------------------------------------------- build

def build(profile="checked", features=None, target_dir=None):
    """(Re)build the harness against /repo's working tree. Returns path of the binary."""
    lock_src = os.path.join(REPO, "Cargo.lock")
    lock_dst = os.path.join(HARNESS, "Cargo.lock")
    if not os.path.exists(lock_dst):
        shutil.copy(lock_src, lock_dst)
    tdir = target_dir or os.path.join(HARNESS, "target" + ("-" + "-".join(features) if features else ""))
    cmd = ["cargo", "build", "--offline", "--profile", profile, "--target-dir", tdir]
    cov = os.environ.get("VERIF_COVERAGE_DIR")
    if cov:
        # development aid (tools_dev/coverage.sh), never used by a registered command: an instrumented
        # build in a scratch directory; the shards then leave *.profraw files there
        tdir = os.path.join(cov, "target")
        cmd = ["cargo", "+nightly", "build", "--offline", "--profile", profile, "--target-dir", tdir]
        ENV["RUSTFLAGS"] = "-Cinstrument-coverage"
        ENV["LLVM_PROFILE_FILE"] = os.path.join(cov, "raw", "%p-%m.profraw")
    if features:
        cmd += ["--features", ",".join(features)]
    t = time.time()
    p = subprocess.run(cmd, cwd=HARNESS, env=ENV, stdout=subprocess.PIPE, stderr=subprocess.STDOUT, text=True)
    if p.returncode != 0:
        # a stale lock file can be the reason after a dependency change in /repo: retry once with a fresh copy
        shutil.copy(lock_src, lock_dst)
        p = subprocess.run(cmd, cwd=HARNESS, env=ENV, stdout=subprocess.PIPE, stderr=subprocess.STDOUT, text=True)
    if p.returncode != 0:
        log(p.stdout[-6000:])
        raise Infra("BUILD-FAILED: harness does not build against /repo's current tree")
    log(f"[build] {profile} {features or ''} ok in {time.time()-t:.1f}s")
    return os.path.join(tdir, profile, "e57mon")


# ----------------------------------------------------------------------------- shards

class Result:
    def __init__(self):
        self.viols = []        # dicts: prop, sig, detail, workload, seed, case, args
        self.sigcounts = {}
        self.stats = {}
        self.cover = {}
        self.nums = {}
        self.samples = []
        self.cases = 0
        self.inconclusive = []
        self.notes = []

    def merge_event(self, j, args):
        t = j.get("t")
        if t == "viol":
            j = dict(j)
            j["args"] = args
            self.viols.append(j)
        elif t == "sigcounts":
            for k, v in j["k"].items():
                self.sigcounts[k] = self.sigcounts.get(k, 0) + v
        elif t == "stats":
            for k, v in j["k"].items():
                if k.startswith("max_"):
                    self.stats[k] = max(self.stats.get(k, 0), v)
                else:
                    self.stats[k] = self.stats.get(k, 0) + v
        elif t == "cover":
            for k, v in j["keys"].items():
                self.cover[k] = self.cover.get(k, 0) + v
            for k, v in j["nums"].items():
                self.nums.setdefault(k, set()).update(v)
        elif t == "sample":
            if len(self.samples) < 6:
                self.samples.append(j["sample"])
        elif t == "done":
            self.cases += j["cases"]
        elif t == "inconclusive":
            self.inconclusive.append(j)

    def merge(self, other):
        self.viols += other.viols
        for k, v in other.sigcounts.items():
            self.sigcounts[k] = self.sigcounts.get(k, 0) + v
        for k, v in other.stats.items():
            if k.startswith("max_"):
                self.stats[k] = max(self.stats.get(k, 0), v)
            else:
                self.stats[k] = self.stats.get(k, 0) + v
        for k, v in other.cover.items():
            self.cover[k] = self.cover.get(k, 0) + v
        for k, v in other.nums.items():
            self.nums.setdefault(k, set()).update(v)
        self.samples += other.samples
        self.cases += other.cases
        self.inconclusive += other.inconclusive
        self.notes += other.notes


def run_shards(binary, workload, extra, cases, secs, seed, tier, outdir, tag, prop, shards=None, abort_prop=None, mem_cap=None):
    """Run `workload` in `shards` processes. A shard that dies abnormally is attributed to its
    journaled case (violation of abort_prop, default = prop) and restarted behind that case."""
    shards = shards or NCPU
    os.makedirs(outdir, exist_ok=True)
    res = Result()
    base = [binary, workload, "--seed", str(seed), "--shards", str(shards), "--cases", str(cases), "--secs", str(secs), "--tier", tier] + extra
    procs = {}
    t0 = time.time()

    def start(i, start_k=0, gen=0):
        out = os.path.join(outdir, f"{tag}_{i}_{gen}.jsonl")
        cmd = base + ["--shard", str(i), "--out", out]
        if start_k:
            cmd += ["--start", str(start_k)]
        err = open(out + ".stderr", "w")
        p = subprocess.Popen(cmd, stdout=subprocess.DEVNULL, stderr=err, env=ENV)
        procs[i] = (p, out, cmd, gen, time.time(), err)

    for i in range(shards):
        start(i)
    deadline = secs * 3 + 120
    restarts = 0
    while procs:
        time.sleep(0.05)
        for i in list(procs):
            p, out, cmd, gen, st, err = procs[i]
            rc = p.poll()
            if rc is None:
                if time.time() - st > deadline:
                    p.kill()
                    p.wait()
                    err.close()
                    del procs[i]
                    jn = read_journal(out)
                    res.inconclusive.append({"why": "watchdog", "shard": i, "journal": jn, "cmd": " ".join(cmd)})
                    collect(out, res, cmd)
                continue
            err.close()
            del procs[i]
            collect(out, res, cmd)
            if rc == 0:
                continue
            if rc == 2:
                raise Infra(f"harness infrastructure error in shard {i}: see {out}.stderr :: " + open(out + ".stderr").read()[-2000:])
            # abnormal termination: attribute to the journaled case
            jn = read_journal(out)
            stderr_txt = open(out + ".stderr").read()[-3000:]
            if rc == 99 and "E57MON-WATCHDOG" in stderr_txt:
                # per-case wall-clock watchdog: not a verdict by itself. The case is re-run alone with a much larger
                # limit; only if it still does not return is it reported (for C08/C09 as non-termination of C09).
                case = jn.get("case") if jn else None
                verdict = "not-reproduced"
                wd_hits = res.stats.get("watchdog_hits", 0) + 1
                res.stats["watchdog_hits"] = wd_hits
                established = any("/non-termination/" in v["sig"] for v in res.viols)
                if established or wd_hits > 6:
                    # non-termination is already established (or the budget for isolated re-runs is used up):
                    # further hits are only counted, the shard is not restarted
                    res.inconclusive.append({"why": "per-case watchdog fired again; not re-run alone (already established / budget used)", "case": case})
                    continue
                if case is not None and case < 2**63:
                    solo = [a for a in base] + ["--only", str(case), "--case-watchdog", "100000", "--out", out + ".solo"]
                    try:
                        sp = subprocess.run(solo, stdout=subprocess.DEVNULL, stderr=subprocess.PIPE, env=ENV, timeout=SOLO_LIMIT_S)
                        verdict = "returned" if sp.returncode in (0, 1) else f"died rc={sp.returncode}"
                    except subprocess.TimeoutExpired:
                        verdict = "still-running"
                if verdict == "still-running":
                    vp = "C09" if (abort_prop in ("C08", "C09")) else (abort_prop or prop)
                    sig = f"{vp}/non-termination/{workload}"
                    res.viols.append({"prop": vp, "sig": sig, "detail": f"case {case} did not return within {SOLO_LIMIT_S} s when run alone (>= 10^4 x the typical case time; not a proof of divergence): {jn.get('note','')}", "workload": workload, "seed": seed, "case": case, "args": cmd})
                    res.sigcounts[sig] = res.sigcounts.get(sig, 0) + 1
                else:
                    res.inconclusive.append({"why": "per-case watchdog fired but the case returned when run alone", "case": case, "solo": verdict})
                restarts += 1
                if case is not None and case < 2**63 and restarts < 200:
                    start(i, (case - i) // shards + 1, gen + 1)
                continue
            if "HARNESS PANIC outside a guarded call" in stderr_txt:
                raise Infra(f"harness bug (panic outside a monitored call) in shard {i}, case {jn}: {stderr_txt[-800:]}")
            cap = "E57MON-ALLOC-CAP-HIT" in stderr_txt
            case = jn.get("case") if jn else None
            if case is None or case >= 2**63:
                res.inconclusive.append({"why": f"shard {i} died rc={rc} outside a case", "stderr": stderr_txt[-500:]})
                continue
            sigclass = "alloc-cap" if cap else ("signal" if rc < 0 else f"exit{rc}")
            klass = classify_abort(stderr_txt)
            res.viols.append({
                "prop": ("C09" if cap and abort_prop in ("C08", "C09") else (abort_prop or prop)),
                "sig": f"{'C09' if cap and abort_prop in ('C08','C09') else (abort_prop or prop)}/abort/{workload}/{sigclass}/{klass}/{note_class(jn.get('note',''))}",
                "detail": f"process died (rc={rc}) while running case {case}: {stderr_txt[-600:]}",
                "workload": workload, "seed": seed, "case": case, "args": cmd,
            })
            k = sigkey = res.viols[-1]["sig"]
            res.sigcounts[k] = res.sigcounts.get(k, 0) + 1
            restarts += 1
            if restarts < 200:
                # continue behind the fatal case: k index = (case - shard)/shards + 1
                start(i, (case - i) // shards + 1, gen + 1)
    res.stats["wall_s_" + tag] = round(time.time() - t0, 2)
    return res


def note_class(note):
    """journal note of a mutated input ('seed <- operator (detail) <- operator2 (...)') -> operator names only"""
    import re
    ops = re.findall(r"<- ([\w-]+)", note or "")
    return "+".join(ops) if ops else (note or "")[:40]


def classify_abort(stderr_txt):
    for key, name in (("E57MON-ALLOC-CAP-HIT", "allocation-cap"), ("memory allocation of", "oom"), ("stack overflow", "stack-overflow"), ("panic in a function that cannot unwind", "nounwind-panic"), ("panicked at", "panic")):
        if key in stderr_txt:
            return name
    return "unknown"


def read_journal(out):
    try:
        with open(out + ".journal") as f:
            return json.loads(f.readline())
    except Exception:
        return None


def collect(out, res, cmd):
    try:
        with open(out) as f:
            for line in f:
                line = line.strip()
                if not line:
                    continue
                try:
                    res.merge_event(json.loads(line), cmd)
                except json.JSONDecodeError:
                    pass  # torn last line of a crashed shard
    except FileNotFoundError:
        pass


# ----------------------------------------------------------------------------- known findings, verdicts, evidence

def load_known():
    p = os.path.join(VERIF, "known_findings.json")
    if not os.path.exists(p):
        return []
    return json.load(open(p)).get("findings", [])


def sig_matches(pattern, sig):
    # exact match, or prefix match when the pattern ends with '*'
    if pattern.endswith("*"):
        return sig.startswith(pattern[:-1])
    return pattern == sig


def finish(prop, tier, seed, level, res, rule, distinct, evaluations, assumptions, t0, extra_cov=None, min_nontrivial=2, exhaustive=None):
    """Filter, report, write evidence. Returns exit code."""
    known = [k for k in load_known() if k.get("property") == prop and k.get("status") == "open"]
    mine = [v for v in res.viols if v.get("prop") == prop]
    others = {}
    for v in res.viols:
        if v.get("prop") != prop:
            others[v["sig"]] = others.get(v["sig"], 0) + 1
    by_sig = {}
    for v in mine:
        by_sig.setdefault(v["sig"], []).append(v)
    new_sigs, known_hits = [], {}
    for sig, vs in by_sig.items():
        k = next((k for k in known if sig_matches(k["signature"], sig)), None)
        if k:
            known_hits.setdefault(k["signature"], (k, 0))
            known_hits[k["signature"]] = (k, known_hits[k["signature"]][1] + len(vs))
        else:
            new_sigs.append(sig)
    rc = 0
    for ksig, (k, n) in sorted(known_hits.items()):
        print(f"KNOWN-FINDING: property={prop} {k['what']} [signature {ksig}; seen {n}x this run]")
    replay_dir = os.path.join(VERIF, "replays", prop)
    shutil.rmtree(replay_dir, ignore_errors=True)  # witnesses of earlier runs are stale
    for sig in sorted(new_sigs):
        v = by_sig[sig][0]
        os.makedirs(replay_dir, exist_ok=True)
        h = hashlib.sha1(sig.encode()).hexdigest()[:12]
        path = os.path.join(replay_dir, f"{h}.json")
        rep = {"property": prop, "signature": sig, "tier": tier, "seed": seed, "workload": v.get("workload"), "case": v.get("case"),
               "detail": v.get("detail"), "count_this_run": res.sigcounts.get(sig, len(by_sig[sig])),
               "harness_args": v.get("args"), "replay_hint": "./check %s --replay %s" % (prop, path)}
        if v.get("files"):
            rep["files"] = v["files"]
        json.dump(rep, open(path, "w"), indent=1)
        print(f"VIOLATION property={prop} replay={path}")
        log(f"  {sig} :: {str(v.get('detail'))[:400]}")
        rc = 1
    if others:
        log(f"[note] violations of other properties seen by this workload (decided by their own checks): {json.dumps(others)[:1500]}")
    for inc in res.inconclusive[:10]:
        log(f"[inconclusive] {json.dumps(inc)[:600]}")
    cov = {
        "evaluations": int(evaluations),
        "distinct_nontrivial": int(distinct),
        "rule": rule,
        "samples": res.samples[:4] if res.samples else [],
        "stats": res.stats,
        "observed": {k: v for k, v in sorted(res.cover.items())[:400]},
        "distinct_values": {k: (sorted(v) if len(v) <= 70 else {"count": len(v), "min": min(v), "max": max(v)}) for k, v in sorted(res.nums.items())},
        "inconclusive": len(res.inconclusive),
        "known_findings_hit": {k: n for k, (_, n) in known_hits.items()},
        "violations_of_other_properties_seen": others,
    }
    if exhaustive is not None:
        cov["exhaustive"] = bool(exhaustive)
    if extra_cov:
        cov.update(extra_cov)
    ev = {
        "property_id": prop, "tier": tier, "seed": int(seed), "level": level, "coverage": cov,
        "assumptions": assumptions, "wall_s": round(time.time() - t0, 2), "violations": len(new_sigs),
    }
    os.makedirs(os.path.join(VERIF, "evidence"), exist_ok=True)
    json.dump(ev, open(os.path.join(VERIF, "evidence", f"{prop}.json"), "w"), indent=1, default=lambda o: sorted(o) if isinstance(o, set) else str(o))
    log(f"[{prop}] {tier}: evaluations={evaluations} distinct_nontrivial={distinct} new_violation_signatures={len(new_sigs)} known={len(known_hits)} inconclusive={len(res.inconclusive)} wall={ev['wall_s']}s")
    if rc == 0 and (distinct < min_nontrivial or not cov["samples"]):
        log(f"[{prop}] BROKEN-CHECK: nothing non-trivial was observed (distinct_nontrivial={distinct}); this is not 'held'")
        return 2
    return rc


def workdir(prop, tier):
    d = os.path.join(WORK, f"{prop}_{tier}_{os.getpid()}")
    shutil.rmtree(d, ignore_errors=True)
    os.makedirs(d)
    return d


def cleanup(d):
    if os.environ.get("VERIF_KEEP_WORK"):
        return
    shutil.rmtree(d, ignore_errors=True)  # only the per-run directory; work/tools-target is a build cache


def main(argv):
    import checks
    if len(argv) >= 2 and argv[1] == "--setup":
        return checks.setup()
    if len(argv) < 3:
        log("usage: check <Cnn> quick|thorough | check <Cnn> --replay <path> | check --setup")
        return 2
    prop = argv[1]
    seed = int(os.environ.get("VERIF_SEED", "1"))
    try:
        if argv[2] == "--replay":
            return checks.replay(prop, argv[3])
        tier = argv[2]
        if tier not in ("quick", "thorough"):
            log("tier must be quick or thorough")
            return 2
        return checks.run(prop, tier, seed)
    except Infra as e:
        log(str(e))
        return 2


if __name__ == "__main__":
    sys.exit(main(sys.argv))
