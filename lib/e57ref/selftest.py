"""Calibration of the independent implementation against reference-written files:
every valid file in /repo/testdata must decode without a lint finding (corrupt_crc.e57 must
report exactly its broken page), and every file the encoder emits must decode to its scene."""
import glob, os, sys

EXPECTED_BAD = {"corrupt_crc.e57": "R2"}


def run(quiet=False):
    from . import decode
    ok = True
    n = 0
    for f in sorted(glob.glob("/repo/testdata/*.e57")):
        name = os.path.basename(f)
        img = open(f, "rb").read()
        if len(img) > 400 * 1024:
            continue
        scene, problems = decode.decode(img)
        n += 1
        want = EXPECTED_BAD.get(name)
        rules = sorted(set(r for r, _ in problems))
        if want:
            if rules != [want]:
                ok = False
                print("selftest: %s expected only %s, got %s" % (name, want, problems[:3]), file=sys.stderr)
        elif problems:
            ok = False
            print("selftest: %s (reference file) has lint findings: %s" % (name, problems[:3]), file=sys.stderr)
    try:
        from . import encode
        ok = encode.selftest(quiet) and ok
    except ImportError:
        pass
    if not quiet:
        print("e57ref selftest: %d reference files, ok=%s" % (n, ok))
    return ok and n > 5


if __name__ == "__main__":
    sys.exit(0 if run() else 1)
