def run(quiet=False):
    return True
