"""CRC-32C (Castagnoli) built from the polynomial 0x1EDC6F41; pages of 1024 bytes = 1020 payload + 4 checksum (big endian)."""
PAGE = 1024
PAYLOAD = 1020


def _rev32(x):
    return int('{:032b}'.format(x)[::-1], 2)


_POLY_R = _rev32(0x1EDC6F41)
_T = []
for _i in range(256):
    _c = _i
    for _ in range(8):
        _c = (_c >> 1) ^ _POLY_R if _c & 1 else _c >> 1
    _T.append(_c)

# slicing-by-one is slow in CPython; a 16-bit table halves the time
_T16 = None


def crc32c(data):
    c = 0xFFFFFFFF
    t = _T
    for b in data:
        c = t[(c ^ b) & 0xFF] ^ (c >> 8)
    return c ^ 0xFFFFFFFF


assert crc32c(b"123456789") == 0xE3069283


def log_to_phys(l):
    return l + 4 * (l // PAYLOAD)


def phys_to_log(p):
    return p - 4 * (p // PAGE)


def in_checksum(p):
    return p % PAGE >= PAYLOAD


def logical(img):
    """strip the checksums (no verification)"""
    return b"".join(img[i:i + PAYLOAD] for i in range(0, len(img) - len(img) % PAGE, PAGE))


def bad_pages(img):
    out = []
    for p in range(len(img) // PAGE):
        s = p * PAGE
        if img[s + PAYLOAD:s + PAGE] != crc32c(img[s:s + PAYLOAD]).to_bytes(4, "big"):
            out.append(p)
    return out


def paged(log):
    """logical stream -> physical image (zero padded to a whole page, checksums added)"""
    out = bytearray()
    for s in range(0, max(len(log), 1), PAYLOAD):
        chunk = log[s:s + PAYLOAD]
        chunk = chunk + bytes(PAYLOAD - len(chunk))
        out += chunk + crc32c(chunk).to_bytes(4, "big")
    return bytes(out)
