"""Independent, specification-driven E57 encoder with randomised *legal* layout choices (G-LAYOUT):
packetisation of every attribute's byte stream (unequal splits, empty streams, values straddling
packets), index and ignored packets between data packets, section order and position relative to
page boundaries, padding, omitted optional type attributes, and XML lexical variants that
preserve the infoset."""
import struct, random
from . import crc, bits

E57NS = "http://www.astm.org/COMMIT/E57/2010-e57-v1.0"


# --------------------------------------------------------------------------- values

def parse_val(s):
    """value string -> (kind, int payload)"""
    k = s[0]
    if k == "s" or k == "d":
        return k, int(s[1:], 16)
    return k, int(s[1:])


def stream_bytes(rec, column):
    t = rec["type"]
    if t == "single":
        return struct.pack("<%dI" % len(column), *[parse_val(v)[1] for v in column])
    if t == "double":
        return struct.pack("<%dQ" % len(column), *[parse_val(v)[1] for v in column])
    mn, mx = int(rec["min"]), int(rec["max"])
    w = bits.width_for(mn, mx)
    return bits.pack([parse_val(v)[1] - mn for v in column], w)


# --------------------------------------------------------------------------- layout of a compressed vector

def packetise(streams, r, style):
    """streams: list of bytes (one per attribute). Returns list of packets, each a list of byte chunks."""
    n = len(streams)
    total = sum(len(s) for s in streams)
    if total == 0:
        return []
    cap = 65536 - 6 - 2 * n - 4
    min_packets = max(1, -(-total // max(cap // 2, 1)))
    if style == "plain":
        p = min_packets
    else:
        p = min_packets + r.choice([0, 0, 1, 2, 3, 5])
    for attempt in range(20):
        cuts = []
        for s in streams:
            ln = len(s)
            if style == "plain" or attempt >= 10:
                c = [ln * (i + 1) // p for i in range(p - 1)]
            elif style == "ahead":
                # this stream runs ahead: everything early (or everything late)
                if r.random() < 0.5:
                    c = sorted(min(ln, int(ln * r.uniform(0.6, 1.0))) if i == 0 else ln for i in range(p - 1))
                else:
                    c = sorted(r.randint(0, ln) for _ in range(p - 1))
            else:
                c = sorted(r.randint(0, ln) for _ in range(p - 1))
            cuts.append([0] + c + [ln])
        packets = []
        ok = True
        for k in range(p):
            chunks = [streams[i][cuts[i][k]:cuts[i][k + 1]] for i in range(n)]
            size = sum(len(c) for c in chunks)
            if size > cap or any(len(c) > 65535 for c in chunks):
                ok = False
                break
            if size > 0:
                packets.append(chunks)
        if ok:
            return packets
        p += 1
    raise RuntimeError("cannot packetise")


def data_packet(chunks):
    n = len(chunks)
    body = b"".join(chunks)
    used = 6 + 2 * n + len(body)
    plen = (used + 3) // 4 * 4
    assert plen <= 65536
    return struct.pack("<BBHH", 1, 0, plen - 1, n) + struct.pack("<%dH" % n, *[len(c) for c in chunks]) + body + bytes(plen - used)


def index_packet(r):
    entries = r.randint(1, 4)
    plen = 16 + 16 * entries
    e = b"".join(struct.pack("<QQ", r.randrange(1000), r.randrange(1 << 20)) for _ in range(entries))
    # the index level (0 = leaf, > 0 = inner node of the index tree) is derived from the entry bytes, without
    # a further draw, so that the packetisations of earlier seeds stay what they were
    level = (sum(e) % 7) % 4 if sum(e) % 2 else 0
    return struct.pack("<BBHHB", 0, 0, plen - 1, entries, level) + bytes(9) + e


def ignored_packet(r):
    plen = r.choice([4, 8, 12, 64, 1020, 1024])
    return struct.pack("<BBH", 2, 0, plen - 1) + bytes(r.getrandbits(8) for _ in range(plen - 4))


def encode_cv(pc, log_start, r, lay):
    """returns (section bytes, info)"""
    proto = pc["prototype"]
    cols = [[p.split(",")[i] for p in pc["points"]] for i in range(len(proto))] if pc["points"] else [[] for _ in proto]
    streams = [stream_bytes(rec, col) for rec, col in zip(proto, cols)]
    if pc.get("_cuts") is not None:
        # explicit packetisation: one list of boundaries [0, c1, ..., len] per attribute (C12 grid)
        cuts = pc["_cuts"]
        p = len(cuts[0]) - 1
        packets = []
        for k in range(p):
            chunks = [streams[i][cuts[i][k]:cuts[i][k + 1]] for i in range(len(streams))]
            if sum(len(c) for c in chunks) > 0:
                packets.append(chunks)
    else:
        packets = packetise(streams, r, lay["packets"])
    body = bytearray()
    kinds = []
    index_at = None
    first = True
    for chunks in packets:
        if lay["nondata"] and r.random() < lay["nondata_p"] and not (first and lay["data_first"]):
            if r.random() < 0.5:
                if index_at is None:
                    index_at = len(body)
                body += index_packet(r)
                kinds.append("index")
            else:
                body += ignored_packet(r)
                kinds.append("ignored")
        body += data_packet(chunks)
        kinds.append("data")
        first = False
    if lay["trailing_index"] and packets:
        if index_at is None:
            index_at = len(body)
        body += index_packet(r)
        kinds.append("index")
    sec_len = 32 + len(body)
    data_off = crc.log_to_phys(log_start + 32)
    if not packets and (lay.get("zero_data_offset") or lay.get("xml_first")):
        # no packet to point at: the reference implementation stores 0. (With the XML first the empty
        # section may be the last thing in the file; an offset equal to the file length would point nowhere.)
        data_off = 0
    index_off = crc.log_to_phys(log_start + 32 + index_at) if index_at is not None else 0
    hdr = struct.pack("<B7xQQQ", 1, sec_len, data_off, index_off)
    shape = "equal"
    if len(packets) > 1:
        if any(any(len(c) == 0 for c in ch) for ch in packets):
            shape = "empty-stream"
        elif lay["packets"] == "plain":
            shape = "equal"
        else:
            shape = "unequal"
    return bytes(hdr) + bytes(body), {"kinds": kinds, "data_packets": len(packets), "shape": shape}


def encode_blob(data):
    ln = len(data)
    sec = (16 + ln + 3) // 4 * 4
    return struct.pack("<B7xQ", 0, sec) + data + bytes(sec - 16 - ln)


# --------------------------------------------------------------------------- XML

def fmt_f64(s, r, style):
    """'f64:hex' -> text"""
    v = struct.unpack("<d", struct.pack("<Q", int(s[4:], 16)))[0] if s[4:] != "nan" else float("nan")
    if v != v:
        return "NaN"
    if v in (float("inf"), float("-inf")):
        return "inf" if v > 0 else "-inf"
    if style == "exp":
        return "%.17e" % v
    return repr(v)


def fmt_f32(s, r, style):
    v = struct.unpack("<f", struct.pack("<I", int(s[4:], 16)))[0]
    if v != v:
        return "NaN"
    if v in (float("inf"), float("-inf")):
        return "inf" if v > 0 else "-inf"
    if style == "exp":
        return "%.9e" % v
    return repr(v)


def esc_text(t, numeric=False):
    out = []
    for ch in t:
        if ch == "&":
            out.append("&amp;")
        elif ch == "<":
            out.append("&lt;")
        elif ch == ">":
            out.append("&gt;")
        elif numeric and (ord(ch) > 0x7E or ch in "'\""):
            out.append("&#%d;" % ord(ch) if ord(ch) % 2 else "&#x%X;" % ord(ch))
        else:
            out.append(ch)
    return "".join(out)


def cdata(t):
    return "<![CDATA[" + t.replace("]]>", "]]]]><![CDATA[>") + "]]>"


class Xml:
    def __init__(self, r, lex):
        self.r = r
        self.lex = lex
        self.out = []
        self.depth = 0
        self.used = set()
        self.attr_hook = None      # C18: adds foreign attributes to standard elements outside prototypes
        self.in_prototype = False
        # lexical variant: the E57 namespace bound to a prefix instead of being the default namespace
        self.std_prefix = lex.get("std_prefix")
        self.leaf_hook = None      # C18: foreign child elements inside standard leaf elements
        self.sibling_hook = None   # C18: foreign elements between ANY two siblings of any standard structure
        self._in_hook = False

    def q(self, tag):
        if self.std_prefix and ":" not in tag:
            return self.std_prefix + ":" + tag
        return tag

    def sep(self):
        l = self.lex
        if l["ws"] == "none":
            return
        if l["ws"] == "comments" and self.r.random() < 0.15:
            self.out.append("\n<!-- %s -->" % self.r.choice(["c", "generated", "x y z", "<not a tag>"]))
            self.used.add("comment-between-elements")
        self.out.append("\n" + ("  " * self.depth if l["ws"] != "newline" else ""))

    def attrs(self, at):
        items = list(at)
        if self.attr_hook is not None and not self.in_prototype:
            items = self.attr_hook(items)
        if self.lex["attr_order"] == "shuffled":
            self.r.shuffle(items)
            self.used.add("attribute-order-shuffled")
        q = "'" if self.lex["quote"] == "single" else '"'
        if self.lex["quote"] == "single":
            self.used.add("single-quoted-attributes")
        s = ""
        for k, v in items:
            v = str(v).replace("&", "&amp;").replace("<", "&lt;").replace(q, "&apos;" if q == "'" else "&quot;")
            s += " %s=%s%s%s" % (k, q, v, q)
        return s

    def _sib(self, tag):
        if self.sibling_hook is not None and not self.in_prototype and not self._in_hook and self.depth > 0 and ":" not in tag:
            self._in_hook = True
            try:
                self.sibling_hook(self, tag)
            finally:
                self._in_hook = False

    def open(self, tag, at):
        self._sib(tag)
        tag = self.q(tag)
        self.sep()
        self.out.append("<%s%s>" % (tag, self.attrs(at)))
        self.depth += 1

    def close(self, tag):
        tag = self.q(tag)
        self.depth -= 1
        self.sep()
        self.out.append("</%s>" % tag)

    def leaf(self, tag, at, text):
        self._sib(tag)
        plain = ":" not in tag
        tag = self.q(tag)
        self.sep()
        front = behind = ""
        if plain and not self.in_prototype:
            if self.leaf_hook is not None:
                front, behind = self.leaf_hook(tag)
            elif self.lex.get("ws") == "comments" and self.r.random() < 0.08:
                # a comment is no part of an element's content, wherever it stands
                c = "<!-- %s -->" % self.r.choice(["c", "1e9", "</x>", "NaN"])
                where = self.r.random()
                if where >= 0.66 and len(text) >= 2 and "&" not in text and "<" not in text:
                    # in the middle of the character data (only where no entity or CDATA section can be cut)
                    i = 1 + self.r.randrange(len(text) - 1)
                    self.out.append("<%s%s>%s%s%s</%s>" % (tag, self.attrs(at), text[:i], c, text[i:], tag))
                    self.used.add("comment-inside-leaf-middle")
                    return
                if where < 0.33:
                    front = c
                else:
                    behind = c
                self.used.add("comment-inside-leaf-" + ("front" if front else "behind"))
        if front or behind:
            self.out.append("<%s%s>%s%s%s</%s>" % (tag, self.attrs(at), front, text, behind, tag))
            return
        if text == "" and self.lex["empty"] == "selfclose":
            self.out.append("<%s%s/>" % (tag, self.attrs(at)))
            self.used.add("empty-element-tag")
        else:
            self.out.append("<%s%s>%s</%s>" % (tag, self.attrs(at), text, tag))

    def string(self, tag, value):
        style = self.lex["string"]
        if style == "mixed":
            style = self.r.choice(["cdata", "escaped", "numeric", "split"])
        if value == "":
            body = "" if self.lex["empty"] != "cdata" else "<![CDATA[]]>"
        elif style == "cdata":
            body = cdata(value)
            self.used.add("string-cdata")
        elif style == "escaped":
            body = esc_text(value)
            self.used.add("string-escaped")
        elif style == "numeric":
            body = esc_text(value, True)
            self.used.add("string-numeric-char-refs")
        else:
            k = self.r.randint(0, len(value))
            body = esc_text(value[:k]) + cdata(value[k:]) if value[k:] else esc_text(value)
            self.used.add("string-text+cdata")
        self.leaf(tag, [("type", "String")], body)

    def float(self, tag, s, extra=()):
        self.leaf(tag, [("type", "Float")] + list(extra), fmt_f64(s, self.r, self.lex["float"]))

    def integer(self, tag, v):
        self.leaf(tag, [("type", "Integer")], str(v))


def record_xml(x, rec, r, lex, used, local_decl=None):
    name = (rec["ns"] + ":" if rec["ns"] else "") + rec["name"]
    t = rec["type"]
    omit = lex["omit_optional"]
    at = [local_decl] if local_decl else []
    if t in ("single", "double"):
        at.append(("type", "Float"))
        f = fmt_f32 if t == "single" else fmt_f64
        if t == "single":
            at.append(("precision", "single"))
        elif not omit or r.random() < 0.5:
            at.append(("precision", "double"))
        else:
            used.add("omitted-precision")
        if rec["min"] is not None:
            at.append(("minimum", f(rec["min"], r, lex["float"])))
        if rec["max"] is not None:
            at.append(("maximum", f(rec["max"], r, lex["float"])))
        if rec["min"] is None or rec["max"] is None:
            used.add("omitted-float-minimum/maximum")
        body = ""
    else:
        at.append(("type", "Integer" if t == "integer" else "ScaledInteger"))
        full_lo, full_hi = rec["min"] == str(-2 ** 63), rec["max"] == str(2 ** 63 - 1)
        if not (omit and full_lo and r.random() < 0.7):
            at.append(("minimum", rec["min"]))
        else:
            used.add("omitted-integer-minimum")
        if not (omit and full_hi and r.random() < 0.7):
            at.append(("maximum", rec["max"]))
        else:
            used.add("omitted-integer-maximum")
        if t == "scaled":
            one, zero = "f64:3ff0000000000000", "f64:0000000000000000"
            if not (omit and rec["scale"] == one and r.random() < 0.7):
                at.append(("scale", fmt_f64(rec["scale"], r, lex["float"])))
            else:
                used.add("omitted-scale")
            if not (omit and rec["offset"] == zero and r.random() < 0.7):
                at.append(("offset", fmt_f64(rec["offset"], r, lex["float"])))
            else:
                used.add("omitted-offset")
        body = rec["min"] if r.random() < 0.5 else ""
    x.leaf(name, at, body)


def val_xml(x, tag, v):
    k = v[0]
    if v in ("snan", "dnan"):
        x.leaf(tag, [("type", "Float")] + ([("precision", "single")] if v == "snan" else []), "NaN")
    elif k == "s":
        x.leaf(tag, [("type", "Float"), ("precision", "single")], fmt_f32("f32:" + v[1:], x.r, x.lex["float"]))
    elif k == "d":
        x.leaf(tag, [("type", "Float")], fmt_f64("f64:" + v[1:], x.r, x.lex["float"]))
    elif k == "k":
        x.leaf(tag, [("type", "ScaledInteger")], v[1:])
    else:
        x.leaf(tag, [("type", "Integer")], v[1:])


def dt_xml(x, tag, d):
    x.open(tag, [("type", "Structure")])
    x.float("dateTimeValue", d["gps"])
    x.integer("isAtomicClockReferenced", 1 if d["atomic"] else 0)
    x.close(tag)


def tr_xml(x, tag, t):
    x.open(tag, [("type", "Structure")])
    x.open("rotation", [("type", "Structure")])
    for k, v in zip("wxyz", t["q"]):
        x.float(k, v)
    x.close("rotation")
    x.open("translation", [("type", "Structure")])
    for k, v in zip("xyz", t["t"]):
        x.float(k, v)
    x.close("translation")
    x.close(tag)


def blob_xml(x, tag, off, length):
    x.leaf(tag, [("type", "Blob"), ("fileOffset", off), ("length", length)], "")


def build_xml(scene, offsets, r, lex, hooks=None):
    """offsets: {('pc',i): phys, ('img',i,'visual'|'proj','blob'|'mask'): phys}; hooks: optional insertion callbacks (C18)"""
    x = Xml(r, lex)
    if hooks and hooks.get("attrs"):
        x.attr_hook = hooks["attrs"]
    if hooks and hooks.get("leaf"):
        x.leaf_hook = hooks["leaf"]
    if hooks and hooks.get("sibling"):
        x.sibling_hook = hooks["sibling"]
    decl = {"full": '<?xml version="1.0" encoding="UTF-8"?>', "short": "<?xml version='1.0'?>", "standalone": '<?xml version="1.0" encoding="UTF-8" standalone="yes"?>', "none": ""}[lex["decl"]]
    if lex["decl"] != "full":
        x.used.add("xml-declaration:" + lex["decl"])
    x.out.append(decl)
    if x.std_prefix and (hooks or any(p == x.std_prefix for p, _ in scene["extensions"])):
        x.std_prefix = None        # the C18 insertions and an equally named extension prefix keep the default namespace
    if x.std_prefix:
        x.used.add("standard-namespace-prefixed")
    root_at = [("type", "Structure"), (("xmlns:" + x.std_prefix) if x.std_prefix else "xmlns", E57NS)] + [("xmlns:" + p, u) for p, u in scene["extensions"]]
    if hooks and hooks.get("root_attrs"):
        root_at += hooks["root_attrs"]
    if lex["ws"] == "none" and decl:
        x.out.append("\n")
    x.open("e57Root", root_at)
    H = (lambda where: hooks["insert"](x, where)) if hooks and hooks.get("insert") else (lambda where: None)
    H("root:first")
    x.string("formatName", "ASTM E57 3D Imaging Data File")
    H("root:before-guid")
    x.string("guid", scene["guid"])
    H("root:after-guid")
    x.integer("versionMajor", 1)
    x.integer("versionMinor", 0)
    if scene.get("library_version") is not None:
        x.string("e57LibraryVersion", scene["library_version"])
    if scene.get("coord") is not None:
        x.string("coordinateMetadata", scene["coord"])
    if scene.get("creation") is not None:
        dt_xml(x, "creationDateTime", scene["creation"])
    H("root:before-data3D")
    x.open("data3D", [("type", "Vector"), ("allowHeterogeneousChildren", 1)])
    ds = hooks.get("decl_site") if hooks else None   # (site, (attr, url), prefix): local namespace declaration
    for i, pc in enumerate(scene["pointclouds"]):
        H("data3D:between")
        x.open("vectorChild", [("type", "Structure")] + ([ds[1]] if ds and ds[0] == "vectorChild" else []))
        H("pc:first")
        if pc.get("guid") is not None:
            x.string("guid", pc["guid"])
        H("pc:after-guid")
        # element order inside a Structure is free: shuffle the optional blocks
        blocks = []
        for k, tag in (("name", "name"), ("description", "description"), ("sensor_vendor", "sensorVendor"), ("sensor_model", "sensorModel"), ("sensor_serial", "sensorSerialNumber"),
                       ("sensor_hw_version", "sensorHardwareVersion"), ("sensor_sw_version", "sensorSoftwareVersion"), ("sensor_fw_version", "sensorFirmwareVersion")):
            if pc.get(k) is not None:
                blocks.append(lambda tag=tag, v=pc[k]: x.string(tag, v))
        for k, tag in (("temperature", "temperature"), ("humidity", "relativeHumidity"), ("atmospheric_pressure", "atmosphericPressure")):
            if pc.get(k) is not None:
                blocks.append(lambda tag=tag, v=pc[k]: x.float(tag, v))
        for k, tag in (("acquisition_start", "acquisitionStart"), ("acquisition_end", "acquisitionEnd")):
            if pc.get(k) is not None:
                blocks.append(lambda tag=tag, v=pc[k]: dt_xml(x, tag, v))
        if pc.get("transform") is not None:
            blocks.append(lambda v=pc["transform"]: tr_xml(x, "pose", v))
        if pc.get("original_guids") is not None:
            def og(v=pc["original_guids"]):
                x.open("originalGuids", [("type", "Vector"), ("allowHeterogeneousChildren", 0)])
                for g in v:
                    x.string("vectorChild", g)
                x.close("originalGuids")
            blocks.append(og)
        for key, tag, names, isint in (("cartesian_bounds", "cartesianBounds", ("xMinimum", "xMaximum", "yMinimum", "yMaximum", "zMinimum", "zMaximum"), False),
                                      ("spherical_bounds", "sphericalBounds", ("rangeMinimum", "rangeMaximum", "elevationMinimum", "elevationMaximum", "azimuthStart", "azimuthEnd"), False),
                                      ("index_bounds", "indexBounds", ("rowMinimum", "rowMaximum", "columnMinimum", "columnMaximum", "returnMinimum", "returnMaximum"), True)):
            if pc.get(key) is not None:
                def bb(tag=tag, names=names, vals=pc[key], isint=isint):
                    x.open(tag, [("type", "Structure")])
                    for nm, v in zip(names, vals):
                        if v is not None:
                            (x.integer if isint else x.float)(nm, v)
                    x.close(tag)
                blocks.append(bb)
        if pc.get("intensity_limits") is not None:
            def il(v=pc["intensity_limits"]):
                x.open("intensityLimits", [("type", "Structure")])
                val_xml(x, "intensityMinimum", v[0])
                val_xml(x, "intensityMaximum", v[1])
                x.close("intensityLimits")
            blocks.append(il)
        if pc.get("color_limits") is not None:
            def cl(v=pc["color_limits"]):
                x.open("colorLimits", [("type", "Structure")])
                for nm, vv in zip(("colorRedMinimum", "colorRedMaximum", "colorGreenMinimum", "colorGreenMaximum", "colorBlueMinimum", "colorBlueMaximum"), v):
                    val_xml(x, nm, vv)
                x.close("colorLimits")
            blocks.append(cl)

        def points():
            H("pc:before-points")
            x.open("points", [("type", "CompressedVector"), ("fileOffset", offsets[("pc", i)]), ("recordCount", pc["records"])] + ([ds[1]] if ds and ds[0] == "points" else []))
            x.open("prototype", [("type", "Structure")] + ([ds[1]] if ds and ds[0] == "prototype" else []))
            x.in_prototype = True
            for rec in pc["prototype"]:
                record_xml(x, rec, r, lex, x.used, ds[1] if ds and ds[0] == "record" and rec["ns"] == ds[2] else None)
            x.in_prototype = False
            x.close("prototype")
            if lex.get("codecs"):
                x.leaf("codecs", [("type", "Vector"), ("allowHeterogeneousChildren", 1)], "")
                x.used.add("empty-codecs-vector")
            x.close("points")
            H("pc:after-points")
        blocks.append(points)
        if lex["element_order"] == "shuffled":
            r.shuffle(blocks)
            x.used.add("element-order-shuffled")
        for b in blocks:
            b()
            H("pc:between")
        x.close("vectorChild")
    x.close("data3D")
    H("root:after-data3D")
    if scene["images"] or lex.get("always_images2D", True):
        x.open("images2D", [("type", "Vector"), ("allowHeterogeneousChildren", 1)])
        for i, im in enumerate(scene["images"]):
            x.open("vectorChild", [("type", "Structure")])
            H("img:first")
            x.string("guid", im["guid"])
            for key, tag in (("visual", "visualReferenceRepresentation"), ("proj", None)):
                rep = im.get(key)
                if rep is None:
                    continue
                tg = tag or {"pinhole": "pinholeRepresentation", "spherical": "sphericalRepresentation", "cylindrical": "cylindricalRepresentation"}[rep["kind"]]
                x.open(tg, [("type", "Structure")])
                blob_xml(x, "pngImage" if rep["format"] == "png" else "jpegImage", offsets[("img", i, key, "blob")], len(rep["blob"]["data"]))
                if rep["mask"] is not None:
                    blob_xml(x, "imageMask", offsets[("img", i, key, "mask")], len(rep["mask"]["data"]))
                x.integer("imageWidth", rep["width"])
                x.integer("imageHeight", rep["height"])
                names = {"pinhole": ("focalLength", "pixelWidth", "pixelHeight", "principalPointX", "principalPointY"), "spherical": ("pixelWidth", "pixelHeight"), "cylindrical": ("radius", "principalPointY", "pixelWidth", "pixelHeight"), "visual": ()}[rep["kind"]]
                for nm, v in zip(names, rep["f"]):
                    x.float(nm, v)
                x.close(tg)
                H("img:between")
            for k, tag in (("name", "name"), ("description", "description"), ("pointcloud_guid", "associatedData3DGuid"), ("sensor_vendor", "sensorVendor"), ("sensor_model", "sensorModel"), ("sensor_serial", "sensorSerialNumber")):
                if im.get(k) is not None:
                    x.string(tag, im[k])
            if im.get("acquisition") is not None:
                dt_xml(x, "acquisitionDateTime", im["acquisition"])
            if im.get("transform") is not None:
                tr_xml(x, "pose", im["transform"])
            x.close("vectorChild")
        x.close("images2D")
    H("root:last")
    x.close("e57Root")
    if lex.get("final_newline", True):
        x.out.append("\n")
    else:
        x.used.add("no-final-newline")
    return "".join(x.out), x.used


# --------------------------------------------------------------------------- whole file

def gen_layout(r, exotic=True):
    if not exotic:
        return {"packets": "plain", "nondata": False, "nondata_p": 0, "trailing_index": False, "data_first": True, "pad": "none", "order": "natural", "xml_first": False, "zero_data_offset": False,
                "lex": {"ws": "newline", "attr_order": "fixed", "quote": "double", "empty": "explicit", "string": "cdata", "float": "repr", "decl": "full", "omit_optional": False, "element_order": "fixed", "trailing_spaces": 0}}
    return {
        "packets": r.choice(["plain", "random", "random", "ahead"]),
        "nondata": r.random() < 0.5, "nondata_p": r.choice([0.2, 0.5, 1.0]), "trailing_index": r.random() < 0.4, "data_first": r.random() < 0.5,
        "pad": r.choice(["none", "small", "page-edge", "random"]), "order": r.choice(["natural", "shuffled"]), "xml_first": r.random() < 0.3, "zero_data_offset": r.random() < 0.3,
        "tail": r.choice(["free", "exact", "exact", "minus4", "plus4"]),
        "lex": {"ws": r.choice(["newline", "indent", "none", "comments"]), "attr_order": r.choice(["fixed", "shuffled"]), "quote": r.choice(["double", "single"]), "empty": r.choice(["explicit", "selfclose", "cdata"]),
                "string": r.choice(["cdata", "escaped", "numeric", "mixed"]), "float": r.choice(["repr", "exp"]), "decl": r.choice(["full", "full", "short", "standalone", "none"]), "omit_optional": r.random() < 0.6,
                "element_order": r.choice(["fixed", "shuffled"]), "trailing_spaces": r.choice([0, 0, 3, 500, 1500]), "codecs": r.random() < 0.3,
                "std_prefix": r.choice([None, None, None, None, None, "e57", "a", "std"]), "final_newline": r.random() < 0.7},
    }


def encode(scene, r, lay, hooks=None):
    """returns (image bytes, info). Two passes: sections are laid out first (their byte content depends on their
    logical position), then the XML is generated with the now known offsets."""
    info = {"objects": [], "lexical": set(), "packet_kinds": {}, "split_shapes": set(), "start_residues": []}
    objs = []
    for i, pc in enumerate(scene["pointclouds"]):
        objs.append(("pc", i))
    for i, im in enumerate(scene["images"]):
        for key in ("visual", "proj"):
            rep = im.get(key)
            if rep is not None:
                objs.append(("img", i, key, "blob"))
                if rep["mask"] is not None:
                    objs.append(("img", i, key, "mask"))
    for i, _ in enumerate(scene.get("blobs", [])):
        objs.append(("blob", i))
    if lay["order"] == "shuffled":
        r.shuffle(objs)

    def pad_to(pos):
        k = lay["pad"]
        if k == "none":
            return pos
        if k == "small":
            return pos + 4 * r.randrange(4)
        if k == "page-edge":
            # next object starts just before / on / after a page payload boundary
            target = r.choice([1016, 1012, 1008, 1004, 996, 988, 0, 4, 8, 16])
            cur = pos % 1020
            return pos + (target - cur) % 1020
        return pos + 4 * r.randrange(600)

    base_seed = r.getrandbits(32)

    def layout(xml_len_reserved):
        log = bytearray(48)
        offsets = {}
        xml_slot = None
        if lay["xml_first"]:
            xml_slot = len(log)
            log += bytes(xml_len_reserved)
            while len(log) % 4:
                log += b"\x00"
        for oi, o in enumerate(objs):
            pos = pad_to(len(log))
            if lay["xml_first"] and oi == len(objs) - 1 and lay.get("tail", "free") != "free":
                # the last section ends exactly on / just before / just after the end of the last page's payload
                if o[0] == "pc":
                    size = len(encode_cv(scene["pointclouds"][o[1]], pos, random.Random(base_seed + 7919 * o[1]), lay)[0])
                elif o[0] == "img":
                    rep = scene["images"][o[1]][o[2]]
                    size = len(encode_blob(rep["blob"]["data"] if o[3] == "blob" else rep["mask"]["data"]))
                else:
                    size = len(encode_blob(scene["blobs"][o[1]]))
                target = {"exact": 0, "minus4": 1016, "plus4": 4}[lay["tail"]]
                pos += (target - (pos + size)) % 1020
            log += bytes(pos - len(log))
            offsets[o] = crc.log_to_phys(pos)
            info["start_residues"].append(pos % 1020)
            if o[0] == "pc":
                sec, ci = encode_cv(scene["pointclouds"][o[1]], pos, random.Random(base_seed + 7919 * o[1]), lay)
                for k in ci["kinds"]:
                    info["packet_kinds"][k] = info["packet_kinds"].get(k, 0) + 1
                info["split_shapes"].add(ci["shape"])
                log += sec
            elif o[0] == "img":
                rep = scene["images"][o[1]][o[2]]
                log += encode_blob(rep["blob"]["data"] if o[3] == "blob" else rep["mask"]["data"])
            else:
                log += encode_blob(scene["blobs"][o[1]])
            while len(log) % 4:
                log += b"\x00"
        return log, offsets, xml_slot

    # pass 1: with a generously reserved XML slot (if XML comes first) to learn the offsets
    lexr = random.Random(r.getrandbits(32))
    state = lexr.getstate()
    log, offsets, xml_slot = layout(0)
    xml, used = build_xml(scene, offsets, lexr, lay["lex"], hooks)
    if lay["xml_first"]:
        reserve = (len(xml.encode("utf-8")) + 64 + 3) // 4 * 4
        info["start_residues"] = []
        info["packet_kinds"] = {}
        log, offsets, xml_slot = layout(reserve)
        lexr.setstate(state)
        xml, used = build_xml(scene, offsets, lexr, lay["lex"], hooks)
        xb = xml.encode("utf-8")
        assert len(xb) <= reserve, "xml grew"
        # the slot is filled with the XML followed by spaces (legal trailing whitespace, as libE57Format pads)
        log[xml_slot:xml_slot + reserve] = xb + b" " * (reserve - len(xb))
        xml_log, xml_len = xml_slot, len(xb) + (reserve - len(xb) if lay["lex"]["trailing_spaces"] else 0)
        if lay["lex"]["trailing_spaces"]:
            used.add("trailing-spaces-after-root")
    else:
        pos = pad_to(len(log))
        log += bytes(pos - len(log))
        xb = xml.encode("utf-8") + b" " * lay["lex"]["trailing_spaces"]
        if lay["lex"]["trailing_spaces"]:
            used.add("trailing-spaces-after-root")
        xml_log, xml_len = pos, len(xb)
        log += xb
    info["xml_start_residue"] = xml_log % 1020
    info["lexical"] = used
    pages = (len(log) + 1019) // 1020
    hdr = struct.pack("<8sIIQQQQ", b"ASTM-E57", 1, 0, pages * 1024, crc.log_to_phys(xml_log), xml_len, 1024)
    log[0:48] = hdr
    return crc.paged(bytes(log)), info


def selftest(quiet=True):
    """encode -> decode with the independent decoder must reproduce the scene"""
    from . import scene as sc, decode
    import sys
    ok = True
    for seed in range(12):
        s, r = sc.gen_scene(1000 + seed, max_points=60)
        lay = gen_layout(r, exotic=seed % 2 == 1)
        img, info = encode(s, r, lay)
        d, problems = decode.decode(img)
        if problems:
            ok = False
            print("encoder selftest: seed %d lint findings on own output: %s" % (seed, problems[:3]), file=sys.stderr)
            continue
        for a, b in zip(s["pointclouds"], d["pointclouds"]):
            if a["points"] != b["points"]:
                ok = False
                print("encoder selftest: seed %d points differ" % seed, file=sys.stderr)
    return ok
