"""LSB-first bit packing as used by E57 bit-packed integer streams."""


def pack(values, width):
    """values: non-negative ints < 2**width; returns bytes, last byte zero padded"""
    if width == 0:
        return b""
    acc = 0
    n = 0
    for v in values:
        acc |= (v & ((1 << width) - 1)) << n
        n += width
    return acc.to_bytes((n + 7) // 8, "little")


def unpack(data, width, count):
    """first `count` values of `width` bits; raises ValueError if data is too short"""
    if width == 0:
        return [0] * count
    if len(data) * 8 < width * count:
        raise ValueError("stream too short: %d bytes for %d values of %d bits" % (len(data), count, width))
    acc = int.from_bytes(data, "little")
    mask = (1 << width) - 1
    return [(acc >> (i * width)) & mask for i in range(count)]


def width_for(minimum, maximum):
    r = maximum - minimum
    return r.bit_length() if r > 0 else 0
