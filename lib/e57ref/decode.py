"""Strict, independent decoder of the E57 container (stdlib only: struct + expat).

decode(img) -> (scene, problems)  where `problems` is a list of (rule_id, text) and scene a dict:
  header, xml (str), root{guid,format,coord,creation,library_version,version}, extensions[(prefix,url)],
  pointclouds[{guid, records, file_offset, prototype[...], points[[...]], streams{...}, <meta>}], images[...], blob sections.
Values use the same exact text form as the Rust harness: s%08x / d%016x / k<int> / i<int>.
"""
import struct
import xml.parsers.expat as expat
from . import crc, bits

E57NS = "http://www.astm.org/COMMIT/E57/2010-e57-v1.0"
TYPES = {"Structure", "Vector", "CompressedVector", "Integer", "ScaledInteger", "Float", "String", "Blob"}


class El:
    __slots__ = ("ns", "name", "attrs", "children", "text", "parent", "had_child_text")

    def __init__(self, ns, name, attrs, parent):
        self.ns, self.name, self.attrs, self.parent = ns, name, attrs, parent
        self.children = []
        self.text = ""

    def child(self, name, ns=E57NS):
        for c in self.children:
            if c.name == name and c.ns == ns:
                return c
        return None

    def all(self, name, ns=E57NS):
        return [c for c in self.children if c.name == name and c.ns == ns]


class XmlError(Exception):
    pass


def parse_xml(data):
    """namespace aware parse; returns (root El, {prefix: uri} declared on the root)"""
    p = expat.ParserCreate(namespace_separator="\n")
    p.buffer_text = True
    stack = []
    root = [None]
    decls = {}

    def split(n):
        if "\n" in n:
            ns, name = n.split("\n", 1)
            return ns, name
        return "", n

    def start(name, attrs):
        ns, local = split(name)
        at = {}
        for k, v in attrs.items():
            kns, kl = split(k)
            at[(kns, kl)] = v
        e = El(ns, local, at, stack[-1] if stack else None)
        if stack:
            stack[-1].children.append(e)
        else:
            root[0] = e
        stack.append(e)

    def end(name):
        stack.pop()

    def chars(d):
        if stack:
            stack[-1].text += d

    def nsdecl(prefix, uri):
        if len(stack) == 0:
            decls[prefix] = uri

    p.StartElementHandler = start
    p.EndElementHandler = end
    p.CharacterDataHandler = chars
    p.StartNamespaceDeclHandler = nsdecl
    try:
        p.Parse(data, True)
    except expat.ExpatError as e:
        raise XmlError(str(e))
    return root[0], decls


def attr(e, name):
    return e.attrs.get(("", name))


def f64_text(t):
    """xml float text -> exact f64 rendering (every NaN is 'nan')"""
    v = float(t)
    if v != v:
        return "nan"
    return "%016x" % struct.unpack("<Q", struct.pack("<d", v))[0]


def f32_text(t):
    v = float(t)
    if v != v:
        return "nan"
    try:
        b = struct.pack("<f", v)
    except OverflowError:
        b = struct.pack("<f", float("inf") if v > 0 else float("-inf"))
    return "%08x" % struct.unpack("<I", b)[0]


class Decoder:
    def __init__(self, img):
        self.img = img
        self.problems = []
        self.intervals = []  # (logical start, logical end, label)

    def bad(self, rule, text):
        self.problems.append((rule, text))

    # ---------------------------------------------------------------- container
    def run(self):
        img = self.img
        scene = {}
        if len(img) == 0 or len(img) % crc.PAGE != 0:
            self.bad("R1", "file size %d is not a whole number of 1024-byte pages" % len(img))
            return None
        badp = crc.bad_pages(img)
        if badp:
            self.bad("R2", "pages with wrong CRC-32C: %s" % badp[:10])
        self.log = crc.logical(img)
        log = self.log
        sig, major, minor, phys_len, xml_off, xml_len, page_size = struct.unpack("<8sIIQQQQ", log[:48])
        scene["header"] = dict(major=major, minor=minor, phys_length=phys_len, phys_xml_offset=xml_off, xml_length=xml_len, page_size=page_size)
        if sig != b"ASTM-E57":
            self.bad("R3", "signature %r" % sig)
        if (major, minor) != (1, 0):
            self.bad("R3", "version %d.%d" % (major, minor))
        if phys_len != len(img):
            self.bad("R3", "header phys_length %d != file size %d" % (phys_len, len(img)))
        if page_size != 1024:
            self.bad("R3", "page size %d" % page_size)
        if crc.in_checksum(xml_off):
            self.bad("R3", "XML offset %d lies inside checksum bytes" % xml_off)
            return scene
        if xml_off >= len(img):
            self.bad("R3", "XML offset %d beyond the file" % xml_off)
            return scene
        xl = crc.phys_to_log(xml_off)
        if xl + xml_len > len(log):
            self.bad("R3", "XML [%d,+%d) does not fit into the logical stream of %d bytes" % (xl, xml_len, len(log)))
            return scene
        if xl % 4 != 0:
            self.bad("R5", "XML start (logical %d) is not 4-aligned" % xl)
        self.intervals.append((0, 48, "file header"))
        self.intervals.append((xl, xl + xml_len, "xml"))
        raw = log[xl:xl + xml_len]
        try:
            xml = raw.decode("utf-8")
        except UnicodeDecodeError as e:
            self.bad("R4", "XML is not UTF-8: %s" % e)
            return scene
        scene["xml"] = xml
        try:
            root, decls = parse_xml(raw)
        except XmlError as e:
            self.bad("R4", "XML not well-formed / namespace error: %s" % e)
            return scene
        if root.ns != E57NS or root.name != "e57Root":
            self.bad("R4", "root element is {%s}%s" % (root.ns, root.name))
            return scene
        scene["extensions"] = sorted((p, u) for p, u in decls.items() if p and u != E57NS)
        self.check_types(root)
        self.decode_root(root, scene)
        # overlaps
        iv = sorted(self.intervals)
        for (a0, a1, la), (b0, b1, lb) in zip(iv, iv[1:]):
            if b0 < a1:
                self.bad("R9", "%s [%d,%d) overlaps %s [%d,%d) (logical offsets)" % (la, a0, a1, lb, b0, b1))
        return scene

    def check_types(self, e):
        t = attr(e, "type")
        # only elements of the E57 namespace and extension elements must carry a type; all of them do in E57
        if t is None:
            self.bad("R4", "element <%s> has no type attribute" % e.name)
        elif t not in TYPES:
            self.bad("R4", "element <%s> has unknown type %r" % (e.name, t))
        for c in e.children:
            self.check_types(c)

    # ---------------------------------------------------------------- leaves
    def s(self, parent, name):
        c = parent.child(name)
        if c is None:
            return None
        if attr(c, "type") != "String":
            self.bad("R10", "<%s> should be a String" % name)
        return c.text

    def f(self, parent, name):
        c = parent.child(name)
        if c is None:
            return None
        if attr(c, "type") != "Float":
            self.bad("R10", "<%s> should be a Float, is %r" % (name, attr(c, "type")))
        try:
            return "f64:" + f64_text(c.text.strip() or "0")
        except ValueError:
            self.bad("R10", "<%s> float text %r" % (name, c.text))
            return None

    def i(self, parent, name):
        c = parent.child(name)
        if c is None:
            return None
        if attr(c, "type") != "Integer":
            self.bad("R10", "<%s> should be an Integer" % name)
        try:
            return str(int(c.text.strip() or "0"))
        except ValueError:
            self.bad("R10", "<%s> integer text %r" % (name, c.text))
            return None

    def dt(self, parent, name):
        c = parent.child(name)
        if c is None:
            return None
        if attr(c, "type") != "Structure":
            self.bad("R10", "<%s> should be a Structure" % name)
        v = c.child("dateTimeValue")
        a = c.child("isAtomicClockReferenced")
        out = {"gps": None, "atomic": None}
        if v is not None:
            out["gps"] = "f64:" + f64_text(v.text.strip() or "0")
        if a is not None:
            out["atomic"] = (a.text.strip() == "1")
        return out

    def transform(self, parent, name):
        c = parent.child(name)
        if c is None:
            return None
        r = c.child("rotation")
        t = c.child("translation")
        q = [self.f(r, k) for k in "wxyz"] if r is not None else ["f64:" + f64_text("1"), "f64:" + f64_text("0"), "f64:" + f64_text("0"), "f64:" + f64_text("0")]
        tt = [self.f(t, k) for k in "xyz"] if t is not None else ["f64:" + f64_text("0")] * 3
        return {"q": q, "t": tt}

    def blob(self, e, label):
        if attr(e, "type") != "Blob":
            self.bad("R10", "<%s> should be a Blob" % e.name)
        try:
            off = int(attr(e, "fileOffset"))
            length = int(attr(e, "length"))
        except (TypeError, ValueError):
            self.bad("R5", "<%s> blob without numeric fileOffset/length" % e.name)
            return None
        data = self.blob_section(off, length, label)
        return {"offset": off, "length": length, "data": data}

    # ---------------------------------------------------------------- sections
    def section_start(self, off, want_id, label):
        if crc.in_checksum(off) or off >= len(self.img):
            self.bad("R5", "%s: fileOffset %d lies in checksum bytes or beyond the file" % (label, off))
            return None
        l = crc.phys_to_log(off)
        if l % 4 != 0:
            self.bad("R5", "%s: section start (logical %d) is not 4-aligned" % (label, l))
        if l + 16 > len(self.log):
            self.bad("R5", "%s: section header beyond the end" % label)
            return None
        if self.log[l] != want_id:
            self.bad("R5", "%s: section id %d at fileOffset %d, expected %d" % (label, self.log[l], off, want_id))
            return None
        if any(self.log[l + 1:l + 8]):
            self.bad("R6", "%s: reserved bytes of the section header are not zero" % label)
        return l

    def blob_section(self, off, length, label):
        l = self.section_start(off, 0, label)
        if l is None:
            return None
        (sec_len,) = struct.unpack("<Q", self.log[l + 8:l + 16])
        want = (16 + length + 3) // 4 * 4
        if sec_len != want:
            self.bad("R8", "%s: blob section length field %d, reference convention 16+%d rounded up to 4 = %d" % (label, sec_len, length, want))
        if l + 16 + length > len(self.log):
            self.bad("R8", "%s: blob data runs past the end of the file" % label)
            return None
        self.intervals.append((l, l + want, label))
        pad = self.log[l + 16 + length:l + want]
        if any(pad):
            self.bad("R8", "%s: blob padding is not zero" % label)
        return self.log[l + 16:l + 16 + length]

    def cv_section(self, off, records, prototype, label):
        """returns (points, info) or (None, info)"""
        info = {"packets": [], "stream_bytes": [0] * len(prototype)}
        l = self.section_start(off, 1, label)
        if l is None:
            return None, info
        if l + 32 > len(self.log):
            self.bad("R6", "%s: section header truncated" % label)
            return None, info
        sec_len, data_off, index_off = struct.unpack("<QQQ", self.log[l + 8:l + 32])
        info.update(section_logical_start=l, section_length=sec_len, data_offset=data_off, index_offset=index_off)
        if sec_len % 4 != 0:
            self.bad("R6", "%s: section length %d not a multiple of 4" % (label, sec_len))
        end = l + sec_len
        if sec_len < 32 or end > len(self.log):
            self.bad("R6", "%s: section length %d does not fit (logical start %d, stream %d)" % (label, sec_len, l, len(self.log)))
            return None, info
        self.intervals.append((l, end, label))
        if data_off == 0 and records == 0 and sec_len == 32:
            # reference files store a zero data offset for a vector without any packet
            return [], info
        if crc.in_checksum(data_off) or data_off >= len(self.img) + 1:
            self.bad("R5", "%s: data offset %d lies in checksum bytes or beyond the file" % (label, data_off))
            return None, info
        p = crc.phys_to_log(data_off)
        if not (l + 32 <= p <= end):
            self.bad("R6", "%s: data offset (logical %d) outside the section [%d,%d]" % (label, p, l + 32, end))
            return None, info
        if index_off != 0:
            if crc.in_checksum(index_off) or index_off >= len(self.img):
                self.bad("R5", "%s: index offset %d lies in checksum bytes or beyond the file" % (label, index_off))
            else:
                ip = crc.phys_to_log(index_off)
                if not (l + 32 <= ip < end) or self.log[ip] != 0:
                    self.bad("R5", "%s: index offset does not land on an index packet inside the section" % label)
        streams = [bytearray() for _ in prototype]
        n = len(prototype)
        while p < end:
            if p + 4 > end:
                self.bad("R6", "%s: %d stray bytes at the end of the section" % (label, end - p))
                break
            t = self.log[p]
            plen = struct.unpack("<H", self.log[p + 2:p + 4])[0] + 1
            if plen % 4 != 0:
                self.bad("R6", "%s: packet at logical %d has length %d (not a multiple of 4)" % (label, p, plen))
                return None, info
            if p + plen > end:
                self.bad("R6", "%s: packet at logical %d (length %d) runs past the section end %d" % (label, p, plen, end))
                return None, info
            if t == 1:
                cnt = struct.unpack("<H", self.log[p + 4:p + 6])[0]
                if cnt != n:
                    self.bad("R6", "%s: data packet has %d byte streams, prototype has %d records" % (label, cnt, n))
                    return None, info
                if self.log[p + 1] & 0xFE:
                    self.bad("R6", "%s: data packet flags %#x" % (label, self.log[p + 1]))
                lens = struct.unpack("<%dH" % n, self.log[p + 6:p + 6 + 2 * n])
                used = 6 + 2 * n + sum(lens)
                if not (used <= plen < used + 4):
                    self.bad("R6", "%s: data packet at logical %d: header+lengths+streams = %d but packet length %d" % (label, p, used, plen))
                    return None, info
                q = p + 6 + 2 * n
                for i, ln in enumerate(lens):
                    streams[i] += self.log[q:q + ln]
                    q += ln
                if any(self.log[q:p + plen]):
                    self.bad("R6", "%s: data packet padding is not zero" % label)
                info["packets"].append(("data", plen, list(lens)))
            elif t == 0:
                if plen < 16:
                    self.bad("R6", "%s: index packet shorter than its header" % label)
                    return None, info
                info["packets"].append(("index", plen, []))
            elif t == 2:
                info["packets"].append(("ignored", plen, []))
            else:
                self.bad("R6", "%s: unknown packet type %d at logical %d" % (label, t, p))
                return None, info
            p += plen
        info["stream_bytes"] = [len(s) for s in streams]
        # decode values
        cols = []
        for i, rec in enumerate(prototype):
            data = bytes(streams[i])
            try:
                cols.append(self.decode_stream(rec, data, records))
            except ValueError as e:
                self.bad("R7", "%s: attribute %s: %s" % (label, rec["name"], e))
                return None, info
        points = [",".join(col[k] for col in cols) for k in range(records)] if cols else [""] * records
        return points, info

    @staticmethod
    def decode_stream(rec, data, count):
        t = rec["type"]
        if t == "single":
            if len(data) < 4 * count:
                raise ValueError("stream too short: %d bytes for %d singles" % (len(data), count))
            return ["s%08x" % v for v in struct.unpack("<%dI" % count, data[:4 * count])]
        if t == "double":
            if len(data) < 8 * count:
                raise ValueError("stream too short: %d bytes for %d doubles" % (len(data), count))
            return ["d%016x" % v for v in struct.unpack("<%dQ" % count, data[:8 * count])]
        mn, mx = int(rec["min"]), int(rec["max"])
        w = bits.width_for(mn, mx)
        vals = bits.unpack(data, w, count)
        pre = "k" if t == "scaled" else "i"
        return ["%s%d" % (pre, mn + v) for v in vals]

    # ---------------------------------------------------------------- XML structure
    def record(self, e, decls_rev):
        t = attr(e, "type")
        if e.ns == E57NS:
            ns = None
        else:
            ns = decls_rev.get(e.ns)
            if ns is None:
                self.bad("R4", "prototype element <%s> is in an undeclared namespace %r" % (e.name, e.ns))
                ns = ""
        rec = {"ns": ns, "name": e.name}
        try:
            if t == "Float":
                prec = attr(e, "precision") or "double"
                if prec not in ("single", "double"):
                    self.bad("R4", "precision %r" % prec)
                conv = f32_text if prec == "single" else f64_text
                pre = "f32:" if prec == "single" else "f64:"
                rec["type"] = prec
                rec["min"] = pre + conv(attr(e, "minimum")) if attr(e, "minimum") is not None else None
                rec["max"] = pre + conv(attr(e, "maximum")) if attr(e, "maximum") is not None else None
            elif t in ("Integer", "ScaledInteger"):
                rec["type"] = "integer" if t == "Integer" else "scaled"
                rec["min"] = str(int(attr(e, "minimum"))) if attr(e, "minimum") is not None else str(-2 ** 63)
                rec["max"] = str(int(attr(e, "maximum"))) if attr(e, "maximum") is not None else str(2 ** 63 - 1)
                if int(rec["min"]) > int(rec["max"]):
                    self.bad("R4", "<%s> minimum > maximum" % e.name)
                if t == "ScaledInteger":
                    rec["scale"] = "f64:" + f64_text(attr(e, "scale") if attr(e, "scale") is not None else "1")
                    rec["offset"] = "f64:" + f64_text(attr(e, "offset") if attr(e, "offset") is not None else "0")
            else:
                self.bad("R4", "prototype element <%s> has type %r" % (e.name, t))
                rec["type"] = "unsupported"
        except (ValueError, TypeError) as ex:
            self.bad("R4", "prototype element <%s>: %s" % (e.name, ex))
            rec["type"] = "unsupported"
        return rec

    def limit(self, parent, name):
        c = parent.child(name)
        if c is None:
            return None
        t = attr(c, "type")
        txt = c.text.strip() or "0"
        try:
            if t == "Integer":
                return "i%d" % int(txt)
            if t == "ScaledInteger":
                return "k%d" % int(txt)
            if t == "Float":
                if (attr(c, "precision") or "double") == "single":
                    v = f32_text(txt)
                    return "snan" if v == "nan" else "s" + v
                v = f64_text(txt)
                return "dnan" if v == "nan" else "d" + v
        except ValueError:
            pass
        self.bad("R10", "limit <%s> type %r text %r" % (name, t, txt))
        return None

    def decode_root(self, root, scene):
        decls_rev = {}
        # prefix of a namespace uri as declared on the root
        for p, u in scene["extensions"]:
            decls_rev.setdefault(u, p)
        r = {}
        r["format"] = self.s(root, "formatName")
        r["guid"] = self.s(root, "guid")
        r["version_major"] = self.i(root, "versionMajor")
        r["version_minor"] = self.i(root, "versionMinor")
        r["library_version"] = self.s(root, "e57LibraryVersion")
        r["coord"] = self.s(root, "coordinateMetadata")
        r["creation"] = self.dt(root, "creationDateTime")
        scene["root"] = r
        if r["format"] != "ASTM E57 3D Imaging Data File":
            self.bad("R10", "formatName %r" % r["format"])
        pcs = []
        d3 = root.child("data3D")
        if d3 is not None:
            if attr(d3, "type") != "Vector":
                self.bad("R4", "data3D is not a Vector")
            for idx, vc in enumerate(d3.all("vectorChild")):
                pcs.append(self.pointcloud(vc, idx, decls_rev))
        scene["pointclouds"] = pcs
        imgs = []
        i2 = root.child("images2D")
        if i2 is not None:
            for idx, vc in enumerate(i2.all("vectorChild")):
                imgs.append(self.image(vc, idx))
        scene["images"] = imgs

    def pointcloud(self, vc, idx, decls_rev):
        pc = {}
        label = "pointcloud %d" % idx
        for k, tag in (("guid", "guid"), ("name", "name"), ("description", "description"), ("sensor_vendor", "sensorVendor"), ("sensor_model", "sensorModel"), ("sensor_serial", "sensorSerialNumber"),
                       ("sensor_hw_version", "sensorHardwareVersion"), ("sensor_sw_version", "sensorSoftwareVersion"), ("sensor_fw_version", "sensorFirmwareVersion")):
            pc[k] = self.s(vc, tag)
        for k, tag in (("temperature", "temperature"), ("humidity", "relativeHumidity"), ("atmospheric_pressure", "atmosphericPressure")):
            pc[k] = self.f(vc, tag)
        pc["acquisition_start"] = self.dt(vc, "acquisitionStart")
        pc["acquisition_end"] = self.dt(vc, "acquisitionEnd")
        pc["transform"] = self.transform(vc, "pose")
        og = vc.child("originalGuids")
        pc["original_guids"] = [c.text for c in og.all("vectorChild")] if og is not None else None
        cb = vc.child("cartesianBounds")
        pc["cartesian_bounds"] = [self.f(cb, k) for k in ("xMinimum", "xMaximum", "yMinimum", "yMaximum", "zMinimum", "zMaximum")] if cb is not None else None
        sb = vc.child("sphericalBounds")
        pc["spherical_bounds"] = [self.f(sb, k) for k in ("rangeMinimum", "rangeMaximum", "elevationMinimum", "elevationMaximum", "azimuthStart", "azimuthEnd")] if sb is not None else None
        ib = vc.child("indexBounds")
        pc["index_bounds"] = [self.i(ib, k) for k in ("rowMinimum", "rowMaximum", "columnMinimum", "columnMaximum", "returnMinimum", "returnMaximum")] if ib is not None else None
        il = vc.child("intensityLimits")
        pc["intensity_limits"] = [self.limit(il, "intensityMinimum"), self.limit(il, "intensityMaximum")] if il is not None else None
        cl = vc.child("colorLimits")
        pc["color_limits"] = [self.limit(cl, k) for k in ("colorRedMinimum", "colorRedMaximum", "colorGreenMinimum", "colorGreenMaximum", "colorBlueMinimum", "colorBlueMaximum")] if cl is not None else None
        pts = vc.child("points")
        if pts is None or attr(pts, "type") != "CompressedVector":
            self.bad("R4", "%s: no <points type=CompressedVector>" % label)
            pc.update(prototype=[], points=None, records=0)
            return pc
        try:
            off = int(attr(pts, "fileOffset"))
            records = int(attr(pts, "recordCount"))
        except (TypeError, ValueError):
            self.bad("R5", "%s: points without numeric fileOffset/recordCount" % label)
            pc.update(prototype=[], points=None, records=0)
            return pc
        proto_e = pts.child("prototype")
        prototype = [self.record(c, decls_rev) for c in proto_e.children] if proto_e is not None else []
        if proto_e is None:
            self.bad("R4", "%s: no prototype" % label)
        pc["prototype"] = prototype
        pc["records"] = records
        pc["file_offset"] = off
        if any(r["type"] == "unsupported" for r in prototype):
            pc["points"] = None
            pc["info"] = {}
        else:
            points, info = self.cv_section(off, records, prototype, label)
            pc["points"] = points
            pc["info"] = info
        return pc

    def rep(self, e, kind, label):
        out = {"kind": kind}
        jp, pn = e.child("jpegImage"), e.child("pngImage")
        if jp is not None:
            out["format"] = "jpeg"
            out["blob"] = self.blob(jp, label + " jpeg")
        elif pn is not None:
            out["format"] = "png"
            out["blob"] = self.blob(pn, label + " png")
        else:
            self.bad("R10", "%s: no image blob" % label)
            out["format"] = None
            out["blob"] = None
        m = e.child("imageMask")
        out["mask"] = self.blob(m, label + " mask") if m is not None else None
        out["width"] = self.i(e, "imageWidth")
        out["height"] = self.i(e, "imageHeight")
        names = {"pinhole": ("focalLength", "pixelWidth", "pixelHeight", "principalPointX", "principalPointY"), "spherical": ("pixelWidth", "pixelHeight"),
                 "cylindrical": ("radius", "principalPointY", "pixelWidth", "pixelHeight"), "visual": ()}[kind]
        out["f"] = [self.f(e, n) for n in names]
        for n in names:
            if e.child(n) is None:
                self.bad("R10", "%s: required element <%s> missing" % (label, n))
        return out

    def image(self, vc, idx):
        im = {}
        label = "image %d" % idx
        for k, tag in (("guid", "guid"), ("name", "name"), ("description", "description"), ("pointcloud_guid", "associatedData3DGuid"), ("sensor_vendor", "sensorVendor"), ("sensor_model", "sensorModel"), ("sensor_serial", "sensorSerialNumber")):
            im[k] = self.s(vc, tag)
        im["acquisition"] = self.dt(vc, "acquisitionDateTime")
        im["transform"] = self.transform(vc, "pose")
        v = vc.child("visualReferenceRepresentation")
        im["visual"] = self.rep(v, "visual", label + " visual") if v is not None else None
        im["proj"] = None
        for kind, tag in (("pinhole", "pinholeRepresentation"), ("spherical", "sphericalRepresentation"), ("cylindrical", "cylindricalRepresentation")):
            e = vc.child(tag)
            if e is not None:
                im["proj"] = self.rep(e, kind, label + " " + kind)
                break
        return im


def decode(img):
    d = Decoder(img)
    try:
        scene = d.run()
    except Exception as e:  # noqa: BLE001 - any failure on hostile input means "not decodable", never a crash of the oracle
        # hostile / damaged input: not decodable (the caller sees rule R0, never an exception)
        d.bad("R0", "decoder could not parse the file: %r" % (e,))
        scene = None
    return scene, d.problems
