"""Batch production of encoder files for the Rust side (C03/C05/C12/C18/C19)."""
import os, json, random, multiprocessing
from . import scene as sc, encode


def scene_for(seed, i, mode="general"):
    if mode == "general":
        return sc.gen_scene(seed * 1000003 + i, max_points=260 if i % 7 else 1500)
    if mode == "writer_rules":
        return sc.gen_scene(seed * 1000003 + i, max_points=120, writer_rules=True)
    raise ValueError(mode)


def _one(args):
    outdir, seed, i, mode = args
    s, r = scene_for(seed, i, mode)
    out = []
    lay = encode.gen_layout(r, True)
    img, info = encode.encode(s, r, lay)
    px = os.path.join(outdir, "f%06d_x.e57" % i)
    open(px, "wb").write(img)
    meta = {"file": px, "i": i, "layout": "exotic", "lexical": sorted(info["lexical"]), "packet_kinds": info["packet_kinds"], "split_shapes": sorted(info["split_shapes"]),
            "start_residues": info["start_residues"], "xml_start_residue": info["xml_start_residue"], "xml_first": lay["xml_first"], "packets": lay["packets"], "tail": lay.get("tail", "free") if lay["xml_first"] else "n/a"}
    out.append(meta)
    if mode == "general":
        # the same scene in the plain layout as control: a difference between the two localises a fault
        s2, r2 = scene_for(seed, i, mode)
        img2, info2 = encode.encode(s2, r2, encode.gen_layout(r2, False))
        pp = os.path.join(outdir, "f%06d_p.e57" % i)
        open(pp, "wb").write(img2)
        out.append({"file": pp, "i": i, "layout": "plain", "lexical": sorted(info2["lexical"]), "packet_kinds": info2["packet_kinds"], "split_shapes": sorted(info2["split_shapes"]), "start_residues": info2["start_residues"],
                    "xml_start_residue": info2["xml_start_residue"], "xml_first": False, "packets": "plain"})
    return out


def produce(outdir, seed, n, mode="general", procs=None):
    os.makedirs(outdir, exist_ok=True)
    metas = []
    with multiprocessing.Pool(procs or min(16, os.cpu_count() or 4)) as pool:
        for m in pool.imap_unordered(_one, [(outdir, seed, i, mode) for i in range(n)], chunksize=8):
            metas += m
    metas.sort(key=lambda m: m["file"])
    with open(os.path.join(outdir, "meta.jsonl"), "w") as f:
        for m in metas:
            f.write(json.dumps(m) + "\n")
    lst = os.path.join(outdir, "files.txt")
    with open(lst, "w") as f:
        for m in metas:
            f.write(m["file"] + "\n")
    return lst, metas


def filelist(outdir, seed, n):
    """files whose prototypes follow the crate writer's documented rules (sources for C19's copy)"""
    lst, _ = produce(outdir, seed, n, mode="writer_rules")
    return lst
