"""Independent, specification-driven implementation of the ASTM E57 container (python3 stdlib only)."""
