"""Random scenes for the independent encoder (G-LAYOUT). A scene is a plain dict in the same shape
the decoder returns, so that encode -> decode -> compare closes the loop without the crate."""
import random, struct

STD = ["cartesianX", "cartesianY", "cartesianZ", "cartesianInvalidState", "sphericalRange", "sphericalAzimuth", "sphericalElevation", "sphericalInvalidState", "intensity", "isIntensityInvalid",
       "colorRed", "colorGreen", "colorBlue", "isColorInvalid", "rowIndex", "columnIndex", "returnCount", "returnIndex", "timeStamp", "isTimeStampInvalid"]


def f64s(v):
    return "f64:%016x" % struct.unpack("<Q", struct.pack("<d", v))[0]


def f32s(v):
    return "f32:%08x" % struct.unpack("<I", struct.pack("<f", v))[0]


def gen_string(r, wild=True):
    if not wild:
        return "".join(r.choice("abcdefghijklmnopqrstuvwxyz") for _ in range(r.randint(1, 12)))
    c = r.randrange(9)
    if c == 0:
        return ""
    if c == 1:
        return "".join(r.choice(["<", ">", "&", "'", '"', "&amp;", "]]>", "a", " ", "<!--", "</x>"]) for _ in range(r.randint(1, 8)))
    if c == 2:
        return "".join(r.choice([" ", "\t", "\n"]) for _ in range(r.randint(1, 4)))
    if c == 3:
        return "".join(chr(r.choice([0xE4, 0x3A9, 0x4E2D, 0xFFFD, 0x1F600, 0x10FFFF, 0x20AC])) for _ in range(r.randint(1, 6)))
    if c == 4:
        return " leading and trailing "
    return "".join(r.choice("abcXYZ019 _-.{}") for _ in range(r.randint(1, 20)))


def gen_int_range(r, w):
    if w == 0:
        m = r.choice([0, 1, -1, 42, -2 ** 63, 2 ** 63 - 1])
        return m, m
    if w == 64:
        return r.choice([(-2 ** 63, 2 ** 63 - 1), (-2 ** 63, 0), (-1, 2 ** 63 - 1)])
    lo, hi = 1 << (w - 1), (1 << w) - 1
    rng = r.choice([hi, lo, min(lo + 1, hi), r.randint(lo, hi)])
    max_min = 2 ** 63 - 1 - rng
    mn = r.choice([0, 1, -1, -(rng // 2), -2 ** 63, max_min, r.randint(-2 ** 63, max_min)])
    mn = max(-2 ** 63, min(mn, max_min))
    return mn, mn + rng


def gen_type(r, kind="any", width=None):
    c = {"any": r.randrange(4), "float": r.randrange(2), "nonint": r.randrange(3), "int": 3}[kind]
    if c == 0:
        rec = {"type": "single", "min": None, "max": None}
        if r.random() < 0.3:
            a = r.randint(-1000, 1000) / 8.0
            rec["min"], rec["max"] = f32s(a), f32s(a + r.randint(0, 2000) / 8.0)
        return rec
    if c == 1:
        rec = {"type": "double", "min": None, "max": None}
        if r.random() < 0.3:
            a = r.randint(-100000, 100000) / 64.0
            rec["min"], rec["max"] = f64s(a), f64s(a + r.randint(0, 200000) / 64.0)
        return rec
    w = width if width is not None else r.choice([0, 1, 2, 3, 7, 8, 9, 12, 16, 17, 24, 31, 32, 33, 48, 63, 64, r.randrange(65)])
    mn, mx = gen_int_range(r, w)
    if c == 2:
        return {"type": "scaled", "min": str(mn), "max": str(mx), "scale": f64s(r.choice([1.0, 0.001, 0.5, -0.25, 1e-9, 1e6])), "offset": f64s(r.choice([0.0, -100.0, 1e7, 12.5]))}
    return {"type": "integer", "min": str(mn), "max": str(mx)}


def gen_value(r, rec):
    t = rec["type"]
    if t == "single":
        c = r.randrange(8)
        bits = [0, 0x80000000, 0x7f800000, 0x7fc00001, 0x00000001, 0x3f800000][c] if c < 6 else r.getrandbits(32)
        return "s%08x" % bits
    if t == "double":
        c = r.randrange(8)
        bits = [0, 1 << 63, 0x7ff0000000000000, 0x7ff8000000000abc, 1, 0x3ff0000000000000][c] if c < 6 else r.getrandbits(64)
        return "d%016x" % bits
    mn, mx = int(rec["min"]), int(rec["max"])
    v = r.choice([mn, mx, min(mn + 1, mx), max(mx - 1, mn), (mn + mx) // 2, r.randint(mn, mx), r.randint(mn, mx)])
    return ("k%d" if t == "scaled" else "i%d") % v


def gen_prototype(r, exts, width=None, writer_rules=False):
    """legal E57 prototype; with writer_rules=True it also follows the crate writer's documented rules"""
    p = []

    def add(name, rec, ns=None):
        rec = dict(rec)
        rec["ns"], rec["name"] = ns, name
        p.append(rec)

    cart = r.random() < 0.66
    sph = (not cart) or r.random() < 0.33
    st2 = {"type": "integer", "min": "0", "max": "2"}
    st1 = {"type": "integer", "min": "0", "max": "1"}
    if cart:
        for n in ("cartesianX", "cartesianY", "cartesianZ"):
            add(n, gen_type(r, "any", width if r.random() < 0.5 else None))
        if r.random() < 0.4:
            # libE57Format declares this state 0..1 in some files; both are legal E57
            add("cartesianInvalidState", st2 if writer_rules or r.random() < 0.6 else st1)
    if sph:
        add("sphericalRange", gen_type(r, "any"))
        add("sphericalAzimuth", gen_type(r, "nonint"))
        add("sphericalElevation", gen_type(r, "nonint"))
        if r.random() < 0.4:
            add("sphericalInvalidState", st2)
    if r.random() < 0.5:
        for n in ("colorRed", "colorGreen", "colorBlue"):
            add(n, gen_type(r, "any"))
        if r.random() < 0.4:
            add("isColorInvalid", st1)
    if r.random() < 0.5:
        add("intensity", gen_type(r, "any"))
        if r.random() < 0.4:
            add("isIntensityInvalid", st1)
    if r.random() < 0.3:
        add("rowIndex", gen_type(r, "int", width))
    if r.random() < 0.3:
        add("columnIndex", gen_type(r, "int"))
    if r.random() < 0.25:
        add("returnCount", gen_type(r, "int"))
        add("returnIndex", gen_type(r, "int"))
    if r.random() < 0.3:
        add("timeStamp", gen_type(r, "any"))
        if r.random() < 0.4:
            add("isTimeStampInvalid", st1)
    for prefix, _ in exts:
        for _ in range(r.randrange(3)):
            nm = "ext" + "".join(r.choice("abcXYZ_09") for _ in range(r.randint(1, 6)))
            if not any(x["name"] == nm and x["ns"] == prefix for x in p):
                add(nm, gen_type(r, "any"), prefix)
    if width is not None and not any(x["type"] in ("integer", "scaled") and _w(x) == width for x in p):
        mn, mx = gen_int_range(r, width)
        if not any(x["name"] == "rowIndex" for x in p):
            add("rowIndex", {"type": "integer", "min": str(mn), "max": str(mx)})
    r.shuffle(p)
    return p


def _w(rec):
    d = int(rec["max"]) - int(rec["min"])
    return d.bit_length() if d > 0 else 0


def gen_dt(r):
    return {"gps": f64s(r.choice([0.0, 1.5, 1e9 + 0.25, -3.0, r.random() * 1e9])), "atomic": r.random() < 0.5}


def gen_transform(r):
    import math
    q = [r.uniform(-1, 1) for _ in range(4)]
    n = math.sqrt(sum(x * x for x in q)) or 1.0
    q = [x / n for x in q]
    if r.random() < 0.3:
        q = [1.0, 0.0, 0.0, 0.0]
    return {"q": [f64s(x) for x in q], "t": [f64s(r.randint(-10000, 10000) / 10.0) for _ in range(3)]}


def gen_limit(r, like):
    t = like["type"] if like else r.choice(["single", "double", "integer", "scaled"])
    if t == "single":
        return "s%08x" % struct.unpack("<I", struct.pack("<f", r.randint(-400, 400) / 4.0))[0]
    if t == "double":
        return "d%016x" % struct.unpack("<Q", struct.pack("<d", r.randint(-4000, 4000) / 16.0))[0]
    return ("k%d" if t == "scaled" else "i%d") % r.choice([0, 1, 255, 65535, -5, 2 ** 40])


def gen_pc(r, exts, wild=True, max_points=300, width=None, writer_rules=False):
    proto = gen_prototype(r, exts, width, writer_rules)
    n = r.choice([0, 1, 2, 3, 7, 8, 9, 17, 64, r.randint(0, max_points)])
    pts = [",".join(gen_value(r, rec) for rec in proto) for _ in range(n)]
    pc = {"guid": gen_string(r, False) if r.random() < 0.9 else None, "prototype": proto, "points": pts, "records": n}
    opt = lambda f: f() if r.random() < 0.35 else None
    for k in ("name", "description", "sensor_vendor", "sensor_model", "sensor_serial", "sensor_hw_version", "sensor_sw_version", "sensor_fw_version"):
        pc[k] = opt(lambda: gen_string(r, wild))
    for k in ("temperature", "humidity", "atmospheric_pressure"):
        pc[k] = opt(lambda: f64s(r.choice([20.5, -40.0, 0.0, 101325.0, r.random() * 100])))
    pc["acquisition_start"] = opt(lambda: gen_dt(r))
    pc["acquisition_end"] = opt(lambda: gen_dt(r))
    pc["transform"] = opt(lambda: gen_transform(r))
    pc["original_guids"] = opt(lambda: [gen_string(r, False) for _ in range(r.randrange(4))])
    fb = lambda: f64s(r.randint(-100000, 100000) / 100.0)
    pc["cartesian_bounds"] = opt(lambda: [fb() if r.random() < 0.9 else None for _ in range(6)])
    pc["spherical_bounds"] = opt(lambda: [fb() if r.random() < 0.9 else None for _ in range(6)])
    pc["index_bounds"] = opt(lambda: [str(r.randint(-5, 5000)) if r.random() < 0.9 else None for _ in range(6)])
    ir = next((x for x in proto if x["name"] == "intensity" and x["ns"] is None), None)
    cr = next((x for x in proto if x["name"] == "colorRed" and x["ns"] is None), None)
    pc["intensity_limits"] = opt(lambda: [gen_limit(r, ir), gen_limit(r, ir)])
    pc["color_limits"] = opt(lambda: [gen_limit(r, cr) for _ in range(6)])
    return pc


def gen_rep(r, kind):
    nf = {"visual": 0, "pinhole": 5, "spherical": 2, "cylindrical": 4}[kind]
    data = bytes(r.getrandbits(8) for _ in range(r.choice([0, 1, 5, 300, 1100])))
    mask = bytes(r.getrandbits(8) for _ in range(r.choice([1, 40, 1030]))) if r.random() < 0.5 else None
    return {"kind": kind, "format": r.choice(["png", "jpeg"]), "blob": {"data": data}, "mask": ({"data": mask} if mask is not None else None), "width": str(r.randint(0, 5000)), "height": str(r.randint(0, 5000)),
            "f": [f64s(r.randint(-1000, 1000) / 7.0) for _ in range(nf)]}


def gen_image(r, wild=True):
    im = {"guid": gen_string(r, False)}
    opt = lambda f: f() if r.random() < 0.35 else None
    for k in ("name", "description", "pointcloud_guid", "sensor_vendor", "sensor_model", "sensor_serial"):
        im[k] = opt(lambda: gen_string(r, wild))
    im["acquisition"] = opt(lambda: gen_dt(r))
    im["transform"] = opt(lambda: gen_transform(r))
    c = r.randrange(3)
    im["visual"] = gen_rep(r, "visual") if c in (0, 2) else None
    im["proj"] = gen_rep(r, r.choice(["pinhole", "spherical", "cylindrical"])) if c in (1, 2) else None
    return im


def gen_scene(seed, wild=True, max_pcs=3, max_points=300, width=None, images=True, writer_rules=False):
    r = random.Random(seed)
    exts = []
    for _ in range(r.randrange(3)):
        p = "".join(r.choice("abcnqz") for _ in range(r.randint(1, 4)))
        if p.startswith("xml") or p in [e[0] for e in exts]:
            continue
        exts.append((p, "http://example.org/%s/%d" % (p, r.randrange(1000))))
    sc = {"guid": gen_string(r, False) or "g", "coord": gen_string(r, wild) if r.random() < 0.4 else None, "creation": gen_dt(r) if r.random() < 0.4 else None,
          "library_version": "e57ref encoder" if r.random() < 0.7 else None, "extensions": sorted(exts)}
    sc["pointclouds"] = [gen_pc(r, exts, wild, max_points, width, writer_rules) for _ in range(r.randint(1, max_pcs))]
    sc["images"] = [gen_image(r, wild) for _ in range(r.randrange(3))] if images else []
    sc["blobs"] = [bytes(r.getrandbits(8) for _ in range(r.choice([0, 3, 500, 1500]))) for _ in range(r.randrange(3))]
    return sc, r
