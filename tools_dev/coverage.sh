#!/bin/bash
# Development aid: which lines of /repo/src do the quick workloads reach?
#   tools_dev/coverage.sh [C01 C02 ...]      (default: all twenty, quick tier)
# Builds an instrumented harness in a scratch directory under /tmp, runs the quick tiers,
# prints a per-file summary and leaves an annotated listing in /tmp/e57cov/show.txt.
# Evidence files are rewritten by these runs from /repo as usual.
set -u
COV=/tmp/e57cov
rm -rf $COV; mkdir -p $COV/raw
BIN=$(rustc +nightly --print sysroot)/lib/rustlib/x86_64-unknown-linux-gnu/bin
props=${@:-C01 C02 C03 C04 C05 C06 C07 C08 C09 C10 C11 C12 C13 C14 C15 C16 C17 C18 C19 C20}
cd /verif
for c in $props; do
  VERIF_COVERAGE_DIR=$COV ./check $c quick 2>&1 | tail -1
done
$BIN/llvm-profdata merge -sparse $COV/raw/*.profraw -o $COV/all.profdata
OBJ=$(ls $COV/target/*/e57mon | head -1)
$BIN/llvm-cov report $OBJ -instr-profile=$COV/all.profdata --ignore-filename-regex='(registry|rustc|verif/harness)' 2>/dev/null | tee $COV/report.txt
$BIN/llvm-cov show $OBJ -instr-profile=$COV/all.profdata --ignore-filename-regex='(registry|rustc|verif/harness)' --show-line-counts-or-regions 2>/dev/null > $COV/show.txt
