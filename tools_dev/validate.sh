#!/bin/bash
python3-vt - <<'PY'
import json,jsonschema,glob
jsonschema.validate(json.load(open('/verif/MANIFEST.json')),json.load(open('/root/.vp/MANIFEST.schema.json')))
n=0
for f in glob.glob('/verif/evidence/*.json'):
    jsonschema.validate(json.load(open(f)),json.load(open('/root/.vp/EVIDENCE.schema.json'))); n+=1
print('manifest valid; evidence files valid:',n)
PY
