#!/usr/bin/env python3
# round 2 prompt: same task, but with a list of ideas that are already covered, to get different ones
import json,sys,subprocess
pid=sys.argv[1]
base=subprocess.run(['python3','/verif/tools_dev/agent_prompt.py',pid],capture_output=True,text=True).stdout
base=base.replace('/tmp/seeded_out/%s/'%pid,'/tmp/seeded_out2/%s/'%pid).replace('git stash / git checkout to switch between states','use `git apply` and `git apply -R` of your own patch file to switch between states; do NOT use git stash (it is shared between worktrees)')
avoid={
 'C01':['computing data_offset as section_offset + 32 (ignoring page checksums)','narrowing ByteStreamReadBuffer::extract to a u64/8-byte load','changing integer_bits via floating point log2'],
 'C02':['data_offset = section_offset + 32','XML length counted in chars instead of bytes','dropping the align() after a blob','misspelling a tag symmetrically'],
 'C03':['narrowing ByteStreamReadBuffer::extract to u64','PagedReader::align rejecting the position exactly at end of file','index/ignored packet skip length errors'],
 'C05':['convert_to_cartesian early return for Direction','gating the intensity-to-grey fallback by the wrong normalisation switch'],
 'C06':['BlobSectionHeader read with a single read() instead of read_exact','PagedWriter::read_current_page with a single read()'],
 'C07':['marking the page as cached before the CRC check / not resetting the cache on mismatch','validate_crc taking the page count from the header','comparing only 3 of 4 checksum bytes'],
 'C09':['zero-width detection ignoring ScaledInteger','moving the read>=records check in the raw iterator'],
 'C10':['range check by bit capacity instead of min/max','prototype validators counting records instead of distinct names'],
 'C11':['fast path in physical_seek for the current page','align() advancing the offset instead of writing zeros'],
 'C14':['merging validation and bounds loops in add_point','to_i64 routed through f64'],
 'C15':['Drop impl that finalizes automatically','page cache reset on CRC mismatch'],
 'C16':['Header::read with a single read()','read_current_page treating read errors as EOF','ignoring the result of the final flush'],
 'C17':['not resetting the page cache on failure','skipping the seek when the tracked reader position matches'],
 'C19':['data_offset = section_offset + 32','Single limits losing precision="single"'],
 'C04':['escaping order of the extension URL attribute','the XML nesting-depth guard miscounting CDATA content','inverting a flag symmetrically in writer and reader','misspelling a tag symmetrically'],
 'C08':['packet_length - header_size underflow when skipping index/ignored packets','narrowing ByteStreamReadBuffer::extract to 8 bytes (slice panic)','string slicing at non-char boundaries in the XML depth guard'],
 'C12':['narrowing ByteStreamReadBuffer::extract to u64','integer_bits via floating point log2'],
 'C13':['unit-range fast path that skips clamping','blue channel range looked up from the green record','inverse of a subnormal range'],
 'C18':['is_tag using lookup_prefix instead of comparing with the parent namespace','blob attributes matched by local name with last-wins'],
 'C20':['e57-from-xyz: continue without line.clear() for short lines','e57-unpack: projection mask file written from the image blob'],
}
extra=avoid.get(pid,[])
if extra:
    base=base.replace('Deliverables - write these files','IMPORTANT: the following ideas have ALREADY been used by others for this property - choose clearly DIFFERENT places and mechanisms:\n - '+'\n - '.join(extra)+'\n\nDeliverables - write these files')
print(base)
