#!/bin/bash
# run the repo's baseline test-suite (hooks off) and print pass/fail totals
cd /repo && cargo test --workspace --no-fail-fast --offline 2>&1 | awk '/^test result:/{p+=$4; f+=$6} /FAILED|panicked/{print} END{print "passed=" p " failed=" f}'
