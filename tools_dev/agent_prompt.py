#!/usr/bin/env python3
# prints the prompt for a seeded-fault sub-agent for property <id>
import json,sys
pid=sys.argv[1]
for l in open('/verif/properties.jsonl'):
    p=json.loads(l)
    if p['id']==pid: break
print(f"""You are helping to evaluate a verification framework for the Rust crate cry-inc/e57 (a pure-Rust reader/writer for the ASTM E57 point cloud file format). You have your own scratch git worktree of the repository at /tmp/wt_{pid} (detached HEAD). Work ONLY inside /tmp/wt_{pid} and /tmp/seeded_out/{pid}/ . Do NOT read or touch /verif, /repo, /root/.claude or /root/.vp - your work must be independent of them. There is no network; build with `cargo build --offline` / `cargo test --offline` (set CARGO_NET_OFFLINE=true).

Here is a semantic property that the library is supposed to satisfy:

TITLE: {p['title']}
STATEMENT: {p['statement']}
QUANTIFIED OVER: {p['quantifier']['text']}
CODE MOST RELEVANT: {', '.join(p['anchors']['files'])}

Your task: produce TWO different, independent, realistic code changes ("a" and "b") to the library sources (src/ or, if the property is about the tools, tools/) each of which BREAKS this property, while the crate still compiles and the whole existing test-suite (`cargo test --workspace --offline --no-fail-fast` in the worktree; 85 tests) still passes. Think of the kind of subtle regression a maintainer could introduce in a refactoring or an optimisation. Requirements for each change:
 - It must need something specific to manifest: a particular interleaving/sequence of operations, a fault or crash at a particular point, a multi-step history, an unusual but legal input (specific bit width, page-boundary position, packet boundary, special value), or two cooperating sites that each look fine alone. NOT something that ordinary use would expose at once, and NOT something the existing tests catch.
 - It must be small (a few lines), compile without new warnings where possible, and must not add new dependencies.
 - Changes a and b should be in different places / of different nature.
 - Each change is a patch relative to the pristine HEAD of the worktree (not stacked on each other).
For each change also write a demonstration: a Rust integration test file (placed under tests/ when run, e.g. tests/demo_{pid.lower()}_a.rs, using only the public API of the crate and std; if the property is about a crate-private layer you may instead put a #[cfg(test)] unit test module in a NEW file included from the changed module, or write the demo as unit test appended to the relevant src file) that PASSES on the pristine HEAD and FAILS with the change applied. Verify both facts by actually running it (git stash / git checkout to switch between states). Also verify the 85 existing tests pass with the change.

Deliverables - write these files (create the directory):
 /tmp/seeded_out/{pid}/a/patch.diff      (output of `git diff` for the library change ONLY, without the demo file)
 /tmp/seeded_out/{pid}/a/demo.rs         (the demonstration test; say in a comment on top where it must be placed and how to run it)
 /tmp/seeded_out/{pid}/a/notes.md        (what was changed, why it breaks the property, what exactly is needed to manifest it, the commands you ran and their outcome)
 and the same under /tmp/seeded_out/{pid}/b/ .
When finished, leave the worktree clean (git checkout -- . ; remove untracked demo files; you may leave target/). Reply with a 5-line summary of the two changes.""")
