#!/usr/bin/env python3
# round 3 prompt: the avoid list is built from the titles of all seeded changes kept so far for the property
import json,sys,subprocess,glob,os,re
pid=sys.argv[1]
OUT=sys.argv[2] if len(sys.argv)>2 else 'seeded_out3'
base=subprocess.run(['python3','/verif/tools_dev/agent_prompt.py',pid],capture_output=True,text=True).stdout
base=base.replace('/tmp/seeded_out/%s/'%pid,'/tmp/'+OUT+'/%s/'%pid).replace('git stash / git checkout to switch between states','use `git apply` and `git apply -R` of your own patch file to switch between states; do NOT use git stash (it is shared between worktrees)')
avoid=[]
for f in sorted(glob.glob('/verif/seeded/*/meta.json')):
    m=json.load(open(f))
    if m['property']!=pid: continue
    n=m.get('needs_to_manifest','')
    t=re.search(r'#\s*C\d\d\s*/\s*(?:change\s*)?[ab]\s*[-:—–]+\s*(.*?)\s*##',n)
    title=t.group(1) if t else n[:160]
    special={'C07_a':'page marked as cached before the CRC check, no reset on mismatch','C11_a':'fast path in PagedWriter::physical_seek for the current page','C13_a':'unit range fast path that skips clamping','C17_b':'skipping the device seek when a tracked stream position matches','own_C02_tag_typo':'a tag misspelt identically in serialiser and parser','own_C07_crc3':'comparing only three of the four checksum bytes','own_C16_flush_swallowed':'ignoring the result of the final flush in finalize'}
    title=special.get(m['id'],title)
    files=re.findall(r'^\+\+\+ b/(\S+)',open(os.path.dirname(f)+'/patch.diff').read(),re.M)
    avoid.append('%s  (in %s)'%(title.strip(),', '.join(files)))
if avoid:
    base=base.replace('Deliverables - write these files','IMPORTANT: the following ideas have ALREADY been used by others for this property - choose clearly DIFFERENT places and mechanisms (preferably functions, files or input classes none of them touches):\n - '+'\n - '.join(avoid)+'\n\nDeliverables - write these files')
base=base.replace('Run the 85 existing tests','Run the existing tests')
print(base)
