#!/usr/bin/env python3
"""Regenerates MANIFEST.json from the table below (keeps it valid at all times)."""
import json, os, subprocess
V='/verif'
props=[json.loads(l) for l in open(f'{V}/properties.jsonl')]
CLAIMED = json.load(open(f'{V}/tools_dev/claimed.json'))
hooks_commits = subprocess.run(['git','-C','/repo','log','--format=%h','--grep','e57_verif feature'],capture_output=True,text=True).stdout.split()
m={"version":1,
 "setup_cmd":"./check --setup",
 "hooks":{"guard":"cargo feature e57_verif (off by default)",
          "enable":"harness/Cargo.toml: e57 = { path = \"/repo\", features = [\"e57_verif\"] }",
          "baseline_off_cmd":"cd /repo && cargo test --workspace --no-fail-fast --offline",
          "source_commits":hooks_commits,"add_only":True},
 "engines":[
   {"name":"e57mon","path":"harness/","serves_properties":sorted(CLAIMED.keys()),"kind_free_text":"Rust harness: generated/hostile/fault-injected workloads against the real crate with reference-model monitors (M-MODEL), instrumented device (M-DEV), panic/allocation/IO-step monitors (M-PROC)"},
   {"name":"e57ref","path":"lib/e57ref/","serves_properties":["C02","C03","C12","C18","C20"],"kind_free_text":"independent Python implementation of the E57 container used as offline checker over recorded files/logs (M-REF)"}],
 "checks":[],"not_applicable":[],
 "notes":"All checks are runtime monitors over executions of the real code; see DESIGN.md. Exit 0 = held on everything observed, 1 = VIOLATION line, 2 = infrastructure failure."}
for p in props:
    pid=p['id']
    if pid in CLAIMED:
        c=CLAIMED[pid]
        m["checks"].append({"property_id":pid,"quick_cmd":f"./check {pid} quick","thorough_cmd":f"./check {pid} thorough",
          "evidence_file":f"evidence/{pid}.json","replay_cmd_template":f"./check {pid} --replay {{path}}","engine":c.get("engine","e57mon"),
          "level_claimed":{"category":c["level"],"text":c["text"],"design_ref":f"DESIGN.md §6 {pid}"},
          "level_note":c["note"],"technique":c["technique"]})
    else:
        m["not_applicable"].append({"property_id":pid,"reason":"check not built yet in this session (runtime monitoring does apply; see DESIGN.md §6)"})
json.dump(m,open(f'{V}/MANIFEST.json','w'),indent=1)
print("claimed",len(m["checks"]),"na",len(m["not_applicable"]))
