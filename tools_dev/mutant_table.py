#!/usr/bin/env python3
"""Prints the markdown table of seeded changes (from seeded/*/meta.json) for DESIGN.md §17."""
import json, glob, os
rows = []
for f in sorted(glob.glob('/verif/seeded/*/meta.json')):
    m = json.load(open(f))
    note = ""
    nf = os.path.join(os.path.dirname(f), "notes.md")
    if os.path.exists(nf):
        txt = open(nf).read()
        for line in txt.splitlines():
            l = line.strip()
            if l and not l.startswith("#") and len(l) > 30:
                note = l[:150]
                break
    checks = m.get("checks", {})
    ran = ", ".join("%s:%s" % (c, "caught" if r["caught"] else "missed") for c, r in checks.items())
    sig = ""
    for c, r in checks.items():
        if r["caught"] and r["violation_signatures"]:
            sig = r["violation_signatures"][0]
            break
    rows.append((m["id"], m["property"], "yes" if m.get("confirmed") else "no", ran, sig, note))
print("| id | property | confirmed | checks run (quick tier) | first signature reported | change |")
print("|---|---|---|---|---|---|")
for r in rows:
    print("| %s | %s | %s | %s | `%s` | %s |" % r)
