#!/usr/bin/env python3
# usage: addfixed.py PROP COMMIT SIGNATURE "what failed"
import json,sys
p='/verif/known_findings.json'; d=json.load(open(p))
prop,commit,sig,what=sys.argv[1:5]
d['findings'].append({"property":prop,"signature":sig,"status":"fixed","commit":commit,"what":what,"line":f"fixed: property={prop} {commit} {what}"})
json.dump(d,open(p,'w'),indent=1)
