#![no_main]
use libfuzzer_sys::fuzz_target;
use e57::*;
use std::io::Cursor;

fn crc32c(data: &[u8]) -> u32 {
    let mut c = 0xFFFF_FFFFu32;
    for &b in data {
        c ^= b as u32;
        for _ in 0..8 {
            c = if c & 1 != 0 { (c >> 1) ^ 0x82F6_3B78 } else { c >> 1 };
        }
    }
    !c
}

// input = logical stream; it is paged, sealed and its header length fields are made consistent
fuzz_target!(|data: &[u8]| {
    if data.len() < 48 || data.len() > 200_000 {
        return;
    }
    let pages = (data.len() + 1019) / 1020;
    let mut log = data.to_vec();
    log.resize(pages * 1020, 0);
    log[0..8].copy_from_slice(b"ASTM-E57");
    log[8..12].copy_from_slice(&1u32.to_le_bytes());
    log[12..16].copy_from_slice(&0u32.to_le_bytes());
    log[16..24].copy_from_slice(&((pages * 1024) as u64).to_le_bytes());
    log[40..48].copy_from_slice(&1024u64.to_le_bytes());
    let mut img = Vec::with_capacity(pages * 1024);
    for p in 0..pages {
        let chunk = &log[p * 1020..(p + 1) * 1020];
        img.extend_from_slice(chunk);
        img.extend_from_slice(&crc32c(chunk).to_be_bytes());
    }
    let _ = E57Reader::raw_xml(Cursor::new(img.clone()));
    let mut r = match E57Reader::new(Cursor::new(img)) {
        Ok(r) => r,
        Err(_) => return,
    };
    for pc in r.pointclouds().iter().take(3) {
        if let Ok(it) = r.pointcloud_raw(pc) {
            for (i, p) in it.enumerate() {
                if p.is_err() || i > 2000 {
                    break;
                }
            }
        }
        if let Ok(it) = r.pointcloud_simple(pc) {
            for (i, p) in it.enumerate() {
                if p.is_err() || i > 2000 {
                    break;
                }
            }
        }
    }
    for im in r.images().iter().take(3) {
        if let Some(v) = &im.visual_reference {
            let mut sink = Vec::new();
            let _ = r.blob(&v.blob.data, &mut sink);
        }
    }
});
