#!/usr/bin/env python3
"""Evaluate one seeded change (from a sub-agent or hand-written) against the checks.

  eval_mutant.py <src_dir> <ID> <PROP> [--checks C01,C02] [--tier quick]

<src_dir> holds patch.diff, demo.rs (and notes.md). Steps:
 1. scratch worktree of /repo HEAD under /tmp: the demo must PASS without and FAIL with the patch,
    and the repository's 85 baseline tests must still pass with the patch  (confirmation);
 2. the patch is applied to /repo itself, the listed checks run, and it is undone straight afterwards;
 3. everything is recorded in /verif/seeded/<ID>/ (patch.diff, demo.rs, meta.json).
The scratch worktree and its build output are removed."""
import json, os, re, shutil, subprocess, sys, time

REPO = "/repo"
ENV = dict(os.environ, CARGO_NET_OFFLINE="true")


def sh(cmd, cwd=None, timeout=3600):
    p = subprocess.run(cmd, cwd=cwd, shell=isinstance(cmd, str), stdout=subprocess.PIPE, stderr=subprocess.STDOUT, text=True, env=ENV, timeout=timeout)
    return p.returncode, p.stdout


def place_demo(wt, demo_src, ident):
    text = open(demo_src).read()
    ap = re.search(r"APPEND this file to (src/[\w/]+\.rs)", text) or re.search(r"[Aa]ppend the whole content of this file to the END of\s+`?(src/[\w/]+\.rs)", text)
    if ap:
        # append-style unit-test demo for a crate-private layer
        host = os.path.join(wt, ap.group(1))
        with open(host, "a") as f:
            f.write("\n" + text)
        name = re.search(r"^mod (\w+)", text, re.M).group(1)
        return ap.group(1) + "#appended", "cargo test --offline --lib %s -- --test-threads=1" % name
    m = re.search(r"copy this file to\s+`?(?:<worktree>/)?(src/[\w/]+\.rs|tests/[\w/]+\.rs)`?", text) or re.search(r"[Pp]lace this file at\s+(tests/[\w/]+\.rs)", text)
    rel = m.group(1) if m else "tests/demo_%s.rs" % ident.lower().replace("/", "_")
    dst = os.path.join(wt, rel)
    shutil.copy(demo_src, dst)
    test_cmd = None
    if rel.startswith("src/"):
        # unit-test module: include it from the module named in the instructions
        mod = re.search(r"end of (src/[\w/]+\.rs)", text)
        host = os.path.join(wt, mod.group(1)) if mod else None
        name = os.path.basename(rel)[:-3]
        with open(host, "a") as f:
            f.write('\n#[cfg(test)]\n#[path = "%s"]\nmod %s;\n' % (os.path.basename(rel), name))
        test_cmd = "cargo test --offline --lib %s -- --test-threads=1" % name
    else:
        feat = " --features e57_verif" if "--features e57_verif" in text else ""
        test_cmd = "cargo test --offline%s --test %s -- --test-threads=1" % (feat, os.path.basename(rel)[:-3])
    return rel, test_cmd


def tests_summary(out):
    passed = sum(int(x) for x in re.findall(r"test result: \w+\. (\d+) passed", out))
    failed = sum(int(x) for x in re.findall(r"test result: \w+\. \d+ passed; (\d+) failed", out))
    return passed, failed


def main():
    src, ident, prop = sys.argv[1], sys.argv[2], sys.argv[3]
    checks = [prop]
    tier = "quick"
    for i, a in enumerate(sys.argv):
        if a == "--checks":
            checks = sys.argv[i + 1].split(",")
        if a == "--tier":
            tier = sys.argv[i + 1]
    patch = os.path.join(src, "patch.diff")
    demo = os.path.join(src, "demo.rs")
    meta = {"id": ident, "property": prop, "source": src, "at": time.strftime("%Y-%m-%dT%H:%M:%S"), "repo_head": sh("git -C /repo rev-parse --short HEAD")[1].strip()}
    phase = "all"  # "confirm": scratch-worktree confirmation only (can run in parallel); "check": reuse the recorded confirmation
    for i, a in enumerate(sys.argv):
        if a == "--phase":
            phase = sys.argv[i + 1]
    out_dir0 = os.path.join("/verif/seeded", ident.replace("/", "_"))
    three_way = False
    if phase == "check":
        meta = json.load(open(os.path.join(out_dir0, "meta.json")))
        three_way = meta.get("three_way", False)
    wt = "/tmp/mt_%s" % ident.replace("/", "_")
    if phase != "check":
        return_code = confirm(meta, wt, patch, demo, ident)
        if return_code:
            return return_code
        three_way = meta.get("three_way", False)
    return finish(meta, phase, three_way, patch, demo, src, ident, checks, tier)


def confirm(meta, wt, patch, demo, ident):
    sh("git -C /repo worktree remove --force %s" % wt)
    shutil.rmtree(wt, ignore_errors=True)
    rc, out = sh("git -C /repo worktree add --detach %s HEAD" % wt)
    try:
        # ---- confirmation in the scratch worktree
        rc, out = sh("git apply --check %s" % patch, cwd=wt)
        three_way = False
        if rc != 0:
            rc, out = sh("git apply --3way --check %s" % patch, cwd=wt)
            three_way = True
            if rc != 0:
                meta["status"] = "patch-does-not-apply"
                meta["apply_output"] = out[-800:]
                print(json.dumps(meta, indent=1))
                return 3
        meta["three_way"] = three_way
        rel, test_cmd = place_demo(wt, demo, ident)
        rc0, out0 = sh(test_cmd, cwd=wt)
        meta["demo_without_patch"] = "pass" if rc0 == 0 else "FAIL"
        sh("git apply %s %s" % ("--3way" if three_way else "", patch), cwd=wt)
        rc1, out1 = sh(test_cmd, cwd=wt)
        meta["demo_with_patch"] = "fail" if rc1 != 0 else "PASS"
        # baseline with the patch (demo removed so that only the 85 are counted)
        if not rel.endswith("#appended"):
            os.remove(os.path.join(wt, rel))
        if rel.startswith("src/"):
            sh("git checkout -- src", cwd=wt)
            sh("git apply %s %s" % ("--3way" if three_way else "", patch), cwd=wt)
        rcb, outb = sh("cargo test --workspace --no-fail-fast --offline", cwd=wt)
        p, f = tests_summary(outb)
        meta["baseline_with_patch"] = {"passed": p, "failed": f}
        meta["confirmed"] = meta["demo_without_patch"] == "pass" and meta["demo_with_patch"] == "fail" and f == 0 and p >= 85
        meta["what_was_run"] = [test_cmd + "  (without and with the patch, scratch worktree)", "cargo test --workspace --no-fail-fast --offline  (with the patch)"]
    finally:
        sh("git -C /repo worktree remove --force %s" % wt)
        shutil.rmtree(wt, ignore_errors=True)
    return 0


def finish(meta, phase, three_way, patch, demo, src, ident, checks, tier):
    # ---- the checks against the patched /repo
    results = {}
    if meta.get("confirmed") and phase != "confirm":
        rc, out = sh("git -C /repo status --porcelain --untracked-files=no")
        if out.strip():
            print("refusing: /repo has uncommitted changes", file=sys.stderr)
            return 2
        rc, out = sh("git -C /repo apply %s %s" % ("--3way" if three_way else "", patch))
        try:
            for c in checks:
                t = time.time()
                rc, out = sh("./check %s %s" % (c, tier), cwd="/verif", timeout=7200)
                sigs = re.findall(r"^\s+(C\d\d/.+?) ::", out, re.M)
                results[c] = {"exit": rc, "caught": rc == 1 and "VIOLATION property=%s" % c in out, "violation_signatures": sorted(set(sigs))[:12], "wall_s": round(time.time() - t, 1), "tail": out[-600:] if rc not in (0, 1) else ""}
                meta["what_was_run"].append("./check %s %s  (patch applied to /repo, undone afterwards)" % (c, tier))
        finally:
            # index first: a --3way apply stages the change, and `checkout -- .` alone would restore it from there
            sh("git -C /repo reset -q")
            sh("git -C /repo checkout -- .")
            # evidence files must describe the unchanged tree: they are rewritten by the next regular run
    meta["checks"] = results
    meta["caught_by"] = [c for c, r in results.items() if r["caught"]]
    out_dir = os.path.join("/verif/seeded", ident.replace("/", "_"))
    os.makedirs(out_dir, exist_ok=True)
    shutil.copy(patch, os.path.join(out_dir, "patch.diff"))
    shutil.copy(demo, os.path.join(out_dir, "demo.rs"))
    notes = os.path.join(src, "notes.md")
    if os.path.exists(notes):
        shutil.copy(notes, os.path.join(out_dir, "notes.md"))
        txt = open(notes).read()
        meta["needs_to_manifest"] = " ".join(txt.split())[:600]
    json.dump(meta, open(os.path.join(out_dir, "meta.json"), "w"), indent=1)
    print(json.dumps({k: meta[k] for k in ("id", "confirmed", "demo_without_patch", "demo_with_patch", "baseline_with_patch", "caught_by")}, indent=None))
    for c, r in results.items():
        print("   ", c, "exit", r["exit"], "caught" if r["caught"] else "MISSED", r["violation_signatures"][:4], r["tail"][-200:])
    return 0


if __name__ == "__main__":
    sys.exit(main())
