#!/usr/bin/env python3
"""Regression of the detection results: every kept seeded change is applied to /repo again, the check that
caught it (the property's own check where that one did) is run in the quick tier, and the change is undone.
  rerun_all.py [ID-prefix ...]
Prints one line per change; exit 1 if one is no longer caught. Results go to seeded/<id>/meta.json["regression"]."""
import glob, json, os, re, subprocess, sys, time

ENV = dict(os.environ, CARGO_NET_OFFLINE="true")


def sh(cmd, cwd=None, timeout=7200):
    p = subprocess.run(cmd, cwd=cwd, shell=True, stdout=subprocess.PIPE, stderr=subprocess.STDOUT, text=True, env=ENV, timeout=timeout)
    return p.returncode, p.stdout


def main():
    want = sys.argv[1:]
    rc, out = sh("git -C /repo status --porcelain --untracked-files=no")
    if out.strip():
        print("refusing: /repo has uncommitted changes")
        return 2
    bad = 0
    for f in sorted(glob.glob("/verif/seeded/*/meta.json")):
        m = json.load(open(f))
        if want and not any(m["id"].startswith(w) for w in want):
            continue
        cb = m.get("caught_by") or []
        if not cb:
            print(m["id"], "was never caught - skipped")
            continue
        check = m["property"] if m["property"] in cb else cb[0]
        patch = os.path.join(os.path.dirname(f), "patch.diff")
        rc, out = sh("git -C /repo apply %s" % patch)
        if rc != 0:
            rc, out = sh("git -C /repo apply --3way %s" % patch)
        if rc != 0:
            print(m["id"], "PATCH NO LONGER APPLIES")
            bad += 1
            sh("git -C /repo reset -q ; git -C /repo checkout -- .")
            continue
        t = time.time()
        try:
            rc, out = sh("./check %s quick" % check, cwd="/verif")
        finally:
            sh("git -C /repo reset -q ; git -C /repo checkout -- .")
        caught = rc == 1 and ("VIOLATION property=%s" % check) in out
        sigs = sorted(set(re.findall(r"^\s+(C\d\d/.+?) ::", out, re.M)))[:3]
        m["regression"] = {"at": time.strftime("%Y-%m-%dT%H:%M:%S"), "check": check, "caught": caught, "exit": rc, "signatures": sigs, "wall_s": round(time.time() - t, 1)}
        json.dump(m, open(f, "w"), indent=1)
        print(m["id"], check, "caught" if caught else "MISSED exit=%d" % rc, sigs[:1], flush=True)
        if not caught:
            bad += 1
    return 1 if bad else 0


if __name__ == "__main__":
    sys.exit(main())
