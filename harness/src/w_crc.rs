//! Workload "crc" (C07): corrupted pages never yield data. One case = (file, page):
//! every single-bit flip of that page (exhaustive), sampled 2-/3-bit flips, bursts and
//! random overwrites; on each altered image a reader runs a random sequence of operations
//! with repetitions and every result must be an error or equal the intact file's result.

use crate::crc::{crc32c, FastCrc, PAGE, PAYLOAD};
use crate::dev::Dev;
use crate::json::{fnv64, J};
use crate::obs::*;
use crate::rng::Rng;
use crate::scene::*;
use crate::{Args, Reporter};
use e57::*;
use std::io::Cursor;

pub const MAX_PAGES: u64 = 12;

/// deterministic small file for file number `n` (independent of sharding)
pub fn make_file(seed: u64, n: u64, cover: &mut crate::Cover) -> Option<(Vec<u8>, Scene)> {
    for attempt in 0..50u64 {
        let mut r = Rng::new(crate::rng::mix(&[seed, 0xC07, n, attempt]));
        let mut k = Knobs::base();
        k.max_items = 3;
        k.big_points = false;
        k.max_records = 8;
        let mut scratch = crate::Cover::default();
        let mut scene = gen_scene(&mut r, &k, &mut scratch);
        // keep sections small and make sure there is something to read
        let mut has_pc = false;
        for it in scene.items.iter_mut() {
            match it {
                Item::Pc(pc) => {
                    has_pc = true;
                    // no limit overrides: the intact file must be fully readable (baseline)
                    pc.meta.intensity_limits = None;
                    pc.meta.color_limits = None;
                    if pc.points.len() < 40 {
                        // enough points for the section to span at least a page of its own
                        let n = 40 + r.usize(120);
                        pc.points = (0..n).map(|_| gen_point(&mut r, &pc.prototype, false)).collect();
                    }
                }
                Item::Blob(b) => {
                    if b.len() < 1200 {
                        *b = gen_blob_data(&mut r, 1200 + (n as usize * 37) % 1500, 3);
                    }
                    b.truncate(2700);
                    if n % 3 == 1 {
                        // constant content over several pages: neighbouring pages are byte-identical, checksum included
                        *b = vec![[0u8, 0xAA, 0xFF][(n as usize / 3) % 3]; 3 * 1020 + 300 + (n as usize % 7) * 4];
                    }
                }
                Item::Img(im) => {
                    if let Some(v) = &mut im.visual {
                        v.data.truncate(700);
                        if let Some(m) = &mut v.mask {
                            m.truncate(300);
                        }
                    }
                    if let Some((_, p)) = &mut im.proj {
                        p.data.truncate(700);
                        if let Some(m) = &mut p.mask {
                            m.truncate(300);
                        }
                    }
                }
                _ => {}
            }
        }
        if !has_pc {
            continue;
        }
        let dev = Dev::empty();
        let run = run_scene(&scene, dev.clone(), Judge::Conforming);
        if !run.finalized {
            continue;
        }
        let bytes = dev.bytes();
        let pages = (bytes.len() / PAGE) as u64;
        if pages < 2 || pages > MAX_PAGES {
            continue;
        }
        cover.hit_num("file_pages", pages);
        return Some((bytes, scene));
    }
    None
}

#[derive(Clone, Debug)]
pub enum ReadOp {
    Meta,
    Raw(usize),
    Simple(usize),
    Blob(usize),
}

pub struct Baseline {
    pub meta: Vec<String>,
    pub xml: String,
    pub pcs: Vec<PointCloud>,
    pub blobs: Vec<Blob>,
    pub raw: Vec<String>,
    pub simple: Vec<String>,
    pub blob: Vec<String>,
    pub page_region: Vec<String>, // per page: what lives there (coverage label)
}

fn render_raw(r: std::result::Result<RawRead, String>) -> std::result::Result<String, String> {
    match r {
        Err(e) => Err(e),
        Ok(rr) => match &rr.end {
            End::Err(e) => Err(format!("after {} items: {}", rr.items.len(), e)),
            _ => Ok(format!("{}|{}", rr.items.iter().map(|p| raw_str(p)).collect::<Vec<_>>().join(";"), rr.end.render())),
        },
    }
}
fn render_simple(r: std::result::Result<SimpleRead, String>) -> std::result::Result<String, String> {
    match r {
        Err(e) => Err(e),
        Ok(rr) => match &rr.end {
            End::Err(e) => Err(format!("after {} items: {}", rr.items.len(), e)),
            _ => Ok(format!("{}|{}", rr.items.iter().map(point_str).collect::<Vec<_>>().join(";"), rr.end.render())),
        },
    }
}
fn render_blob(r: std::result::Result<(u64, Vec<u8>), String>) -> std::result::Result<String, String> {
    r.map(|(n, d)| format!("{}:{:016x}:{}", n, fnv64(&d), d.len()))
}

/// partial reads deliver data too: items yielded before an error must be a prefix of the baseline's
fn prefix_ok(partial_items: &str, baseline: &str) -> bool {
    baseline.starts_with(partial_items)
}

/// Drive an iterator and keep calling next() a few times after an Err: every Ok item, before or after
/// an error, must be the intact file's item at that position. Returns Ok(rendering) when the iterator
/// ended without error, Err(text) when it failed, and a violation detail when an item differs.
fn iterate_checked<I, T>(it: I, base_items: &[&str], render: impl Fn(&T) -> String) -> (std::result::Result<String, String>, Option<String>)
where
    I: Iterator<Item = Result<T>>,
{
    let mut it = it;
    let mut n = 0usize;
    let mut errs = 0u32;
    let mut first_err: Option<String> = None;
    let mut items: Vec<String> = Vec::new();
    loop {
        match it.next() {
            None => break,
            Some(Ok(p)) => {
                let s = render(&p);
                if base_items.get(n).map_or(true, |b| *b != s) {
                    return (
                        Err("different".into()),
                        Some(format!(
                            "item {} {} differs from the intact file: got {} expected {:?}",
                            n,
                            if errs > 0 { "(yielded by calling next() again after an Err)" } else { "(yielded before any error)" },
                            s.chars().take(120).collect::<String>(),
                            base_items.get(n).map(|b| b.chars().take(120).collect::<String>())
                        )),
                    );
                }
                items.push(s);
                n += 1;
                if n > base_items.len() + 2 {
                    break;
                }
            }
            Some(Err(e)) => {
                errs += 1;
                if first_err.is_none() {
                    first_err = Some(err_str(&e));
                }
                // keep stepping: a layer that does not stay in front of the bad page would re-enter the byte
                // stream out of sync and hand out items the intact file never yields
                if errs > 12 {
                    break;
                }
            }
        }
    }
    match first_err {
        Some(e) => (Err(format!("after {} items: {}", n, e)), None),
        None => (Ok(format!("{}|none", items.join(";"))), None),
    }
}

pub fn all_blobs(imgs: &[Image], extra: &[Blob]) -> Vec<Blob> {
    let mut v: Vec<Blob> = Vec::new();
    for im in imgs {
        for (_, b) in img_blobs(im) {
            v.push(b);
        }
    }
    v.extend(extra.iter().cloned());
    v
}

pub fn baseline(bytes: &[u8], extra_blobs: &[Blob]) -> Option<Baseline> {
    let mut rd = E57Reader::new(Cursor::new(bytes.to_vec())).ok()?;
    let meta = meta_lines(&rd, true);
    let xml = rd.xml().to_string();
    let pcs = rd.pointclouds();
    let blobs = all_blobs(&rd.images(), extra_blobs);
    let mut raw = Vec::new();
    let mut simple = Vec::new();
    for pc in &pcs {
        raw.push(render_raw(read_raw(&mut rd, pc, 1 << 20)).ok()?);
        simple.push(render_simple(read_simple(&mut rd, pc, Opts::DEFAULT, 1 << 20)).ok()?);
    }
    let mut blob = Vec::new();
    for b in &blobs {
        blob.push(render_blob(read_blob(&mut rd, b)).ok()?);
    }
    // label pages
    let h = rd.header();
    let npages = bytes.len() / PAGE;
    let mut page_region = vec![String::new(); npages];
    let xml_first = (h.phys_xml_offset / PAGE as u64) as usize;
    for (p, label) in page_region.iter_mut().enumerate() {
        let mut l = Vec::new();
        if p == 0 {
            l.push("header");
        }
        if p >= xml_first {
            l.push("xml");
        }
        if pcs.iter().any(|pc| (pc.file_offset / PAGE as u64) as usize == p) {
            l.push("cv-section-start");
        }
        if blobs.iter().any(|b| (b.offset / PAGE as u64) as usize == p) {
            l.push("blob-start");
        }
        if l.is_empty() {
            l.push("data");
        }
        *label = l.join("+");
    }
    Some(Baseline { meta, xml, pcs, blobs, raw, simple, blob, page_region })
}

pub struct Outcome {
    pub viol: Option<(String, String)>,
    pub code: u64, // folded into the verdict digest
    pub new_ok: bool,
    pub ops_err: u64,
    pub ops_equal: u64,
    pub repeats_after_failure: u64,
}

/// run the read suite on an altered image
pub fn judge_variant(img: &[u8], base: &Baseline, r: &mut Rng, must_detect: bool, what: &str) -> Outcome {
    let mut out = Outcome { viol: None, code: 0, new_ok: false, ops_err: 0, ops_equal: 0, repeats_after_failure: 0 };
    // whole-file validation
    match guarded(|| E57Reader::validate_crc(Cursor::new(img.to_vec()))) {
        Err(p) => {
            out.viol = Some((format!("panic/validate_crc/{}", panic_sig(&p)), p));
            return out;
        }
        Ok(Ok(_)) => {
            out.code = out.code.wrapping_mul(31).wrapping_add(1);
            if must_detect {
                out.viol = Some((format!("validate_crc/accepted/{}", what), format!("validate_crc returned Ok on an image altered by {}", what)));
                return out;
            }
        }
        Ok(Err(_)) => {
            out.code = out.code.wrapping_mul(31).wrapping_add(2);
        }
    }
    let rd = guarded(|| E57Reader::new(Cursor::new(img.to_vec())));
    let mut rd = match rd {
        Err(p) => {
            out.viol = Some((format!("panic/E57Reader::new/{}", panic_sig(&p)), p));
            return out;
        }
        Ok(Err(_)) => {
            out.code = out.code.wrapping_mul(31).wrapping_add(3);
            return out;
        }
        Ok(Ok(rd)) => rd,
    };
    out.new_ok = true;
    out.code = out.code.wrapping_mul(31).wrapping_add(4);
    // everything the open reader reports without further reads
    let meta = meta_lines(&rd, true);
    if meta != base.meta {
        let d = meta.iter().zip(base.meta.iter()).find(|(a, b)| a != b).map(|(a, b)| format!("altered: {} :: intact: {}", a, b)).unwrap_or_else(|| "different number of lines".into());
        let field = d.split(' ').nth(1).unwrap_or("?").to_string();
        out.viol = Some((format!("open/accepted-with-different-content/{}/{}", what, field), d.chars().take(600).collect()));
        return out;
    }
    if rd.xml() != base.xml {
        out.viol = Some((format!("open/accepted-with-different-xml/{}", what), format!("xml() has {} bytes, intact file {}", rd.xml().len(), base.xml.len())));
        return out;
    }
    // random operation sequence with repetitions
    let mut ops: Vec<ReadOp> = Vec::new();
    for i in 0..base.pcs.len() {
        ops.push(ReadOp::Raw(i));
        ops.push(ReadOp::Simple(i));
    }
    for i in 0..base.blobs.len() {
        ops.push(ReadOp::Blob(i));
    }
    ops.push(ReadOp::Meta);
    let n = ops.len();
    let mut seq: Vec<ReadOp> = ops.clone();
    r.shuffle(&mut seq);
    for _ in 0..(1 + n / 2) {
        seq.push(ops[r.usize(n)].clone());
    }
    let mut failed_before: Vec<bool> = vec![false; n + 1];
    for op in seq {
        let (label, slot, res): (String, usize, std::result::Result<std::result::Result<String, String>, String>) = match &op {
            ReadOp::Meta => ("descriptors".into(), n, guarded(|| Ok(meta_lines(&rd, true).join("\n")))),
            ReadOp::Raw(i) => {
                let items: Vec<&str> = base.raw[*i].rsplit_once('|').map(|(a, _)| a).unwrap_or("").split(';').filter(|x| !x.is_empty()).collect();
                let mut viol_detail: Option<String> = None;
                let r = guarded(|| match rd.pointcloud_raw(&base.pcs[*i]) {
                    Ok(it) => {
                        let (res, v) = iterate_checked(it, &items, |p: &RawValues| raw_str(p));
                        viol_detail = v;
                        res
                    }
                    Err(e) => Err(err_str(&e)),
                });
                if let Some(d) = viol_detail {
                    out.viol = Some((format!("read/different-item/{}/raw", what), d));
                    return out;
                }
                (format!("raw{}", i), *i, r)
            }
            ReadOp::Simple(i) => {
                let items: Vec<&str> = base.simple[*i].rsplit_once('|').map(|(a, _)| a).unwrap_or("").split(';').filter(|x| !x.is_empty()).collect();
                let mut viol_detail: Option<String> = None;
                let r = guarded(|| match rd.pointcloud_simple(&base.pcs[*i]) {
                    Ok(mut it) => {
                        let o = Opts::DEFAULT; // the same options as the baseline
                        it.spherical_to_cartesian(o.s2c());
                        it.cartesian_to_spherical(o.c2s());
                        it.intensity_to_color(o.i2c());
                        it.normalize_intensity(o.ni());
                        it.normalize_color(o.nc());
                        it.apply_pose(o.pose());
                        let (res, v) = iterate_checked(it, &items, |p: &Point| point_str(p));
                        viol_detail = v;
                        res
                    }
                    Err(e) => Err(err_str(&e)),
                });
                if let Some(d) = viol_detail {
                    out.viol = Some((format!("read/different-item/{}/simple", what), d));
                    return out;
                }
                (format!("simple{}", i), *i, r)
            }
            ReadOp::Blob(i) => (format!("blob{}", i), base.pcs.len() + *i, guarded(|| render_blob(read_blob(&mut rd, &base.blobs[*i])))),
        };
        let expect: String = match &op {
            ReadOp::Meta => base.meta.join("\n"),
            ReadOp::Raw(i) => base.raw[*i].clone(),
            ReadOp::Simple(i) => base.simple[*i].clone(),
            ReadOp::Blob(i) => base.blob[*i].clone(),
        };
        match res {
            Err(p) => {
                out.viol = Some((format!("panic/{}/{}", label.trim_end_matches(char::is_numeric), panic_sig(&p)), p));
                return out;
            }
            Ok(Err(_)) => {
                out.ops_err += 1;
                out.code = out.code.wrapping_mul(31).wrapping_add(5);
                if slot < failed_before.len() {
                    if failed_before[slot] {
                        out.repeats_after_failure += 1;
                    }
                    failed_before[slot] = true;
                }
            }
            Ok(Ok(s)) => {
                if s != expect {
                    out.viol = Some((
                        format!("read/different-data/{}/{}", what, label.trim_end_matches(char::is_numeric)),
                        format!("{} returned Ok with other data than on the intact file (after failure of the same op: {}): got {} expected {}", label, slot < failed_before.len() && failed_before[slot], s.chars().take(200).collect::<String>(), expect.chars().take(200).collect::<String>()),
                    ));
                    return out;
                }
                out.ops_equal += 1;
                out.code = out.code.wrapping_mul(31).wrapping_add(6);
                if slot < failed_before.len() && failed_before[slot] {
                    out.repeats_after_failure += 1;
                }
            }
        }
    }
    let _ = prefix_ok;
    out
}

/// One file of more than 2^16 pages: whatever a reader keeps per page (verified marks, caches, tables) must
/// not alias pages whose numbers agree modulo some table size. A bit is flipped in pages around powers of two
/// and in random pages; whole-file validation and reading the blob that covers the page must both fail.
fn large_file_stage(a: &Args, rep: &mut Reporter) {
    let mut r = Rng::new(crate::rng::mix(&[a.seed, 0xB16F]));
    let n: usize = 66 * 1024 * 1024 + 4096 + r.usize(5000);
    let data: Vec<u8> = (0..n).map(|i| ((i as u64).wrapping_mul(0x9E37_79B9_7F4A_7C15) >> 56) as u8).collect();
    let built = guarded(|| -> std::result::Result<(Vec<u8>, Blob), String> {
        let mut cur = Cursor::new(Vec::new());
        let blob;
        {
            let mut w = E57Writer::new(&mut cur, "{large}").map_err(|e| err_str(&e))?;
            let mut src: &[u8] = &data;
            blob = w.add_blob(&mut src).map_err(|e| err_str(&e))?;
            w.finalize().map_err(|e| err_str(&e))?;
        }
        Ok((cur.into_inner(), blob))
    });
    let (mut img, blob) = match built {
        Ok(Ok(x)) => x,
        other => {
            rep.violation("C07", "large-file/write-failed", 0, &format!("writing one blob of {} bytes failed: {:?}", n, other.map(|r| r.map(|_| ()))));
            return;
        }
    };
    let npages = img.len() / PAGE;
    rep.stat("large_file_pages", npages as u64);
    match guarded(|| E57Reader::validate_crc(Cursor::new(&img[..]))) {
        Ok(Ok(1024)) => {}
        other => {
            rep.violation("C07", "validate_crc/intact-rejected/large-file", 0, &format!("validate_crc on an intact file of {} pages: {:?}", npages, other.map(|r| r.map_err(|e| err_str(&e)))));
            return;
        }
    }
    let mut pages: Vec<(usize, &'static str)> = Vec::new();
    for k in [8usize, 10, 12, 14, 15, 16] {
        let p = 1usize << k;
        for (q, c) in [(p - 1, "2^k-1"), (p, "2^k"), (p + 1, "2^k+1")] {
            if q < npages {
                pages.push((q, c));
            }
        }
    }
    pages.push((npages - 2, "near-end"));
    let extra = if a.thorough() { 40 } else { 4 };
    for _ in 0..extra {
        pages.push((1 + r.usize(npages - 1), "random"));
    }
    if !a.thorough() {
        // quick tier: the powers of two themselves, two neighbours, and the random ones
        pages.retain(|(q, c)| *c == "2^k" || *c == "random" || *c == "near-end" || *q == (1 << 14) + 1 || *q == (1 << 16) - 1);
    }
    for (pg, class) in pages {
        let at = pg * PAGE + r.usize(PAGE);
        let bit = 1u8 << r.usize(8);
        img[at] ^= bit;
        rep.stat("variants", 1);
        rep.stat("large_file_variants", 1);
        rep.cover.hit(&format!("variant:large-file:{}", class));
        match guarded(|| E57Reader::validate_crc(Cursor::new(&img[..]))) {
            Err(p) => rep.violation("C07", &format!("panic/validate_crc/{}", panic_sig(&p)), 0, &p),
            Ok(Ok(_)) => rep.violation("C07", &format!("validate_crc/accepted/large-file/{}", class), 0, &format!("file of {} pages: a flipped bit in page {} (byte {} of the page) is not detected by validate_crc", npages, pg, at % PAGE)),
            Ok(Err(_)) => {}
        }
        // reading: open (reads the header page and the XML pages first), then the blob that covers the page
        let res = guarded(|| -> std::result::Result<u64, String> {
            let mut rd = E57Reader::new(Cursor::new(&img[..])).map_err(|e| err_str(&e))?;
            let mut sink = Fnv { h: 0xcbf29ce484222325, n: 0 };
            rd.blob(&blob, &mut sink).map_err(|e| err_str(&e))?;
            Ok(sink.h)
        });
        match res {
            Err(p) => rep.violation("C07", &format!("panic/blob/{}", panic_sig(&p)), 0, &p),
            Ok(Ok(h)) => {
                let in_blob = (at as u64) >= blob.offset && pg < npages - 2;
                if in_blob || h != fnv64(&data) {
                    rep.violation("C07", &format!("read/accepted-data/large-file/{}", class), 0, &format!("file of {} pages: with a flipped bit in page {} the blob covering it was returned without error (content {})", npages, pg, if h == fnv64(&data) { "unchanged" } else { "ALTERED" }));
                }
            }
            Ok(Err(_)) => {}
        }
        img[at] ^= bit;
    }
}

struct Fnv {
    h: u64,
    n: u64,
}
impl std::io::Write for Fnv {
    fn write(&mut self, b: &[u8]) -> std::io::Result<usize> {
        for &x in b {
            self.h ^= x as u64;
            self.h = self.h.wrapping_mul(0x100000001b3);
        }
        self.n += b.len() as u64;
        Ok(b.len())
    }
    fn flush(&mut self) -> std::io::Result<()> {
        Ok(())
    }
}

pub fn run(a: &Args, rep: &mut Reporter) {
    if a.shard == 0 && a.only.is_none() && a.get_u64("start", 0) == 0 && !a.flag("no-large") {
        large_file_stage(a, rep);
    }
    let fc = FastCrc::new();
    let multi = a.get_u64("multi", 1500);
    let mut digest_files: u64 = 0;
    let mut digest_verdicts: u64 = 0;
    let (done, reason) = crate::run_cases(a, rep, |idx, _cs, rep| {
        let mut cover = std::mem::take(&mut rep.cover);
        let file_no = idx / MAX_PAGES;
        let page = (idx % MAX_PAGES) as usize;
        let made = make_file(a.seed, file_no, &mut cover);
        let (bytes, scene) = match made {
            Some(x) => x,
            None => {
                rep.stat("file_generation_failed", 1);
                rep.cover = cover;
                return;
            }
        };
        let npages = bytes.len() / PAGE;
        if page >= npages {
            rep.cover = cover;
            return;
        }
        let _ = scene;
        if page == 0 {
            rep.stat("files", 1);
            digest_files = digest_files.wrapping_add(fnv64(&bytes) & 0xFFFF_FFFF_FFFF);
            // stored checksum = independent bitwise CRC-32C, big endian, on every page
            for p in 0..npages {
                let c = crc32c(&bytes[p * PAGE..p * PAGE + PAYLOAD]);
                rep.stat("pages_crc_checked", 1);
                if bytes[p * PAGE + PAYLOAD..(p + 1) * PAGE] != c.to_be_bytes() {
                    rep.violation("C07", "stored-checksum-not-crc32c-be", idx, &format!("file {} page {}: stored {:02x?} independent CRC-32C {:08x}", file_no, p, &bytes[p * PAGE + PAYLOAD..(p + 1) * PAGE], c));
                }
            }
            // the checksum routine on payload lengths that are not a multiple of 4 / 8: the two standalone
            // functions accept any page size, so the same logical stream is re-paged with an independent CRC
            {
                let log = crate::crc::logical(&bytes);
                let xml_log = crate::crc::phys_to_log(u64::from_le_bytes(bytes[24..32].try_into().unwrap_or([0; 8]))) as usize;
                let xml_len = u64::from_le_bytes(bytes[32..40].try_into().unwrap_or([0; 8])) as usize;
                let mut rr = Rng::new(crate::rng::mix(&[a.seed, 0x9A6E, file_no]));
                for ps in [1023usize, 1022, 1021, 514, 259, 2048, 517] {
                    let pay = ps - 4;
                    let pages_n = (log.len() + pay - 1) / pay;
                    let mut l2 = log.clone();
                    l2.resize(pages_n * pay, 0);
                    l2[16..24].copy_from_slice(&((pages_n * ps) as u64).to_le_bytes());
                    l2[24..32].copy_from_slice(&((xml_log + 4 * (xml_log / pay)) as u64).to_le_bytes());
                    l2[40..48].copy_from_slice(&(ps as u64).to_le_bytes());
                    let mut img2 = Vec::with_capacity(pages_n * ps);
                    for p in 0..pages_n {
                        let chunk = &l2[p * pay..(p + 1) * pay];
                        img2.extend_from_slice(chunk);
                        img2.extend_from_slice(&crc32c(chunk).to_be_bytes());
                    }
                    rep.stat("other_page_size_images", 1);
                    cover.hit_num("page_sizes_validated", ps as u64);
                    match guarded(|| E57Reader::validate_crc(Cursor::new(img2.clone()))) {
                        Ok(Ok(got)) if got == ps as u64 => {}
                        other => rep.violation("C07", &format!("validate_crc/intact-rejected/page-size-mod4={}", ps % 4), idx, &format!("file {} re-paged to {} byte pages with an independent CRC-32C: validate_crc says {:?}", file_no, ps, other.map(|r| r.map_err(|e| err_str(&e))))),
                    }
                    match guarded(|| E57Reader::raw_xml(Cursor::new(img2.clone()))) {
                        Ok(Ok(x)) if x == log[xml_log..xml_log + xml_len] => {}
                        other => rep.violation("C07", &format!("raw_xml/intact-differs/page-size-mod4={}", ps % 4), idx, &format!("file {} re-paged to {} byte pages: raw_xml gives {:?}", file_no, ps, other.map(|r| r.map(|x| x.len()).map_err(|e| err_str(&e))))),
                    }
                    // any altered byte of the tail of a page must be detected too
                    for _ in 0..6 {
                        let mut img3 = img2.clone();
                        let p = rr.usize(pages_n);
                        let tail = 1 + rr.usize(8);
                        let at = p * ps + ps - 4 - tail.min(ps - 4);
                        img3[at] ^= 1 << rr.usize(8);
                        if let Ok(Ok(_)) = guarded(|| E57Reader::validate_crc(Cursor::new(img3))) {
                            rep.violation("C07", &format!("validate_crc/accepted/1bit-page-tail/page-size-mod4={}", ps % 4), idx, &format!("file {} with {} byte pages: a flipped bit {} bytes before the checksum of page {} is not detected", file_no, ps, tail, p));
                        }
                    }
                }
            }
            match guarded(|| E57Reader::validate_crc(Cursor::new(bytes.clone()))) {
                Ok(Ok(1024)) => {}
                other => rep.violation("C07", "validate_crc/intact-rejected", idx, &format!("validate_crc on the intact file: {:?}", other.map(|r| r.map_err(|e| err_str(&e))))),
            }
        }
        let base = match baseline(&bytes, &[]) {
            Some(b) => b,
            None => {
                rep.stat("baseline_failed", 1);
                rep.cover = cover;
                return;
            }
        };
        let mut r = Rng::new(crate::rng::mix(&[a.seed, 0xC07F, idx]));
        let region = base.page_region[page].clone();
        let mut img = bytes.clone();
        let mut judge = |img: &[u8], must: bool, what: &str, rep: &mut Reporter, r: &mut Rng, cover: &mut crate::Cover| {
            let o = judge_variant(img, &base, r, must, what);
            rep.stat("variants", 1);
            rep.stat(if o.new_ok { "variants_open_accepted" } else { "variants_open_rejected" }, 1);
            rep.stat("ops_err", o.ops_err);
            rep.stat("ops_equal", o.ops_equal);
            rep.stat("repeated_after_failure", o.repeats_after_failure);
            digest_verdicts = digest_verdicts.wrapping_add(o.code & 0xFFFF_FFFF_FFFF);
            cover.hit(&format!("variant:{}:{}", what, if o.new_ok { "open-ok" } else { "open-err" }));
            if let Some((sig, d)) = o.viol {
                rep.violation("C07", &sig, idx, &format!("file {} page {} ({}): {}", file_no, page, region, d));
            }
        };
        // exhaustive single bit flips of this page
        for byte in 0..PAGE {
            for bit in 0..8 {
                img[page * PAGE + byte] ^= 1 << bit;
                let what = if byte >= PAYLOAD { "1bit-checksum" } else if page == 0 && byte < 48 { "1bit-file-header" } else { "1bit-payload" };
                judge(&img, true, what, rep, &mut r, &mut cover);
                img[page * PAGE + byte] ^= 1 << bit;
            }
        }
        rep.stat("pages_flipped_exhaustively", 1);
        // structured forgeries of the checksum field: the right polynomial in the wrong byte order, reflected,
        // complemented, rotated, another polynomial ... on the intact payload and on an altered payload whose
        // "checksum" was recomputed in that wrong form. Each differs from the stored big-endian CRC-32C, so the
        // page counts as altered and must be refused.
        {
            let ieee = |d: &[u8]| -> u32 {
                let mut c: u32 = 0xFFFF_FFFF;
                for &b in d {
                    c ^= b as u32;
                    for _ in 0..8 {
                        c = if c & 1 == 1 { (c >> 1) ^ 0xEDB8_8320 } else { c >> 1 };
                    }
                }
                !c
            };
            let forms: [(&str, fn(u32) -> [u8; 4]); 8] = [
                ("little-endian", |c| c.to_le_bytes()),
                ("complemented", |c| (!c).to_be_bytes()),
                ("bit-reversed", |c| c.reverse_bits().to_be_bytes()),
                ("rotated-8", |c| c.rotate_left(8).to_be_bytes()),
                ("rotated-16", |c| c.rotate_left(16).to_be_bytes()),
                ("rotated-24", |c| c.rotate_left(24).to_be_bytes()),
                ("byte-pairs-swapped", |c| {
                    let b = c.to_be_bytes();
                    [b[1], b[0], b[3], b[2]]
                }),
                ("complemented-little-endian", |c| (!c).to_le_bytes()),
            ];
            for altered_payload in [false, true] {
                let mut v = bytes.clone();
                if altered_payload {
                    let at = page * PAGE + r.usize(PAYLOAD);
                    v[at] ^= 1 << r.usize(8);
                    // keep clear of header fields with their own plausibility checks only by chance: any byte may be hit
                }
                let c = crc32c(&v[page * PAGE..page * PAGE + PAYLOAD]);
                let right = bytes[page * PAGE + PAYLOAD..(page + 1) * PAGE].to_vec();
                let mut cands: Vec<(String, [u8; 4])> = forms.iter().map(|(n, f)| (n.to_string(), f(c))).collect();
                let ci = ieee(&v[page * PAGE..page * PAGE + PAYLOAD]);
                cands.push(("crc32-ieee-be".into(), ci.to_be_bytes()));
                cands.push(("crc32-ieee-le".into(), ci.to_le_bytes()));
                cands.push(("zero".into(), [0; 4]));
                cands.push(("ones".into(), [0xFF; 4]));
                for (name, field) in cands {
                    let mut w = v.clone();
                    w[page * PAGE + PAYLOAD..(page + 1) * PAGE].copy_from_slice(&field);
                    if !altered_payload && field[..] == right[..] {
                        continue; // palindromic value: nothing was altered
                    }
                    if altered_payload && field == c.to_be_bytes() {
                        continue; // would be a correctly sealed different page, not a corruption the checksum can see
                    }
                    let what = format!("checksum-forged:{}{}", name, if altered_payload { "+payload" } else { "" });
                    judge(&w, true, &what, rep, &mut r, &mut cover);
                }
            }
        }
        cover.hit(&format!("region:{}", region));
        // sampled multi-bit alterations
        for _ in 0..multi {
            let kind = r.usize(5);
            let mut v = bytes.clone();
            let (what, must) = match kind {
                0 => {
                    // 2 bits, same page
                    let a1 = r.usize(PAGE * 8);
                    let mut a2 = r.usize(PAGE * 8);
                    if a2 == a1 {
                        a2 = (a2 + 1) % (PAGE * 8);
                    }
                    v[page * PAGE + a1 / 8] ^= 1 << (a1 % 8);
                    v[page * PAGE + a2 / 8] ^= 1 << (a2 % 8);
                    ("2bit-same-page", true)
                }
                1 => {
                    let mut bits = [r.usize(PAGE * 8), r.usize(PAGE * 8), r.usize(PAGE * 8)];
                    bits.sort();
                    if bits[0] == bits[1] || bits[1] == bits[2] {
                        bits = [5, 77, 4099];
                    }
                    for b in bits {
                        v[page * PAGE + b / 8] ^= 1 << (b % 8);
                    }
                    ("3bit-same-page", true)
                }
                2 => {
                    // bits in two pages
                    let other = r.usize(npages);
                    let a1 = r.usize(PAGE * 8);
                    let a2 = r.usize(PAGE * 8);
                    v[page * PAGE + a1 / 8] ^= 1 << (a1 % 8);
                    if other != page || a1 != a2 {
                        v[other * PAGE + a2 / 8] ^= 1 << (a2 % 8);
                    }
                    ("2bit-two-pages", true)
                }
                3 => {
                    // one burst of up to 32 bits at any bit phase: first and last bit of the burst flipped, random inside
                    let len = 2 + r.usize(31);
                    let start = r.usize(PAGE * 8 - len);
                    let mut pattern: u64 = r.u64() & ((1u64 << len) - 1);
                    pattern |= 1 | (1u64 << (len - 1));
                    for i in 0..len {
                        if pattern >> i & 1 == 1 {
                            let b = start + i;
                            v[page * PAGE + b / 8] ^= 1 << (b % 8);
                        }
                    }
                    ("burst<=32", true)
                }
                _ => {
                    // random overwrite: only "Err or equal" is asserted
                    let len = 1 + r.usize(64);
                    let start = r.usize(PAGE - len);
                    for i in 0..len {
                        v[page * PAGE + start + i] = r.u64() as u8;
                    }
                    let same = v == bytes;
                    if same {
                        v[page * PAGE + start] ^= 0x55;
                    }
                    ("random-overwrite", false)
                }
            };
            judge(&v, must, what, rep, &mut r, &mut cover);
        }
        if rep.samples < rep.max_samples {
            rep.sample(J::obj().set("case", J::i(idx as i128)).set("file", J::i(file_no as i128)).set("file_pages", J::u(npages)).set("page", J::u(page)).set("page_holds", J::s(&region)).set("variants", J::u(8192 + multi as usize)));
        }
        let _ = &fc;
        rep.cover = cover;
    });
    rep.stat("digest_files_sum48", digest_files & 0xFFFF_FFFF_FFFF);
    rep.stat("digest_verdicts_sum48", digest_verdicts & 0xFFFF_FFFF_FFFF);
    rep.finish(done, reason);
}
