//! Canonical, bit-exact rendering of everything the reader reports, plus helpers that
//! drive the read API to its end. Used for equality between executions (strings) and
//! for the JSONL dumps consumed by the Python oracles.

use crate::json::{fnv64, J};
use e57::*;
use std::error::Error as StdError;
use std::io::{Read, Seek};

pub fn err_str(e: &Error) -> String {
    let variant = match e {
        Error::Invalid { .. } => "Invalid",
        Error::Read { .. } => "Read",
        Error::Write { .. } => "Write",
        Error::NotImplemented { .. } => "NotImplemented",
        Error::Internal { .. } => "Internal",
        _ => "Other",
    };
    let mut s = format!("{}|{}", variant, e);
    let mut src = e.source();
    let mut depth = 0;
    while let Some(x) = src {
        s.push_str(" <- ");
        s.push_str(&x.to_string());
        src = x.source();
        depth += 1;
        if depth > 8 {
            break;
        }
    }
    s
}

pub fn err_variant(e: &Error) -> &'static str {
    match e {
        Error::Invalid { .. } => "Invalid",
        Error::Read { .. } => "Read",
        Error::Write { .. } => "Write",
        Error::NotImplemented { .. } => "NotImplemented",
        Error::Internal { .. } => "Internal",
        _ => "Other",
    }
}

/// error message with digits collapsed: a class of errors, usable in signatures
pub fn err_class(e: &Error) -> String {
    class_of(&format!("{}", e))
}

pub fn class_of(s: &str) -> String {
    let mut out = String::new();
    let mut in_num = false;
    for c in s.chars() {
        if c.is_ascii_digit() {
            if !in_num {
                out.push('#');
                in_num = true;
            }
        } else {
            in_num = false;
            if c == ' ' {
                out.push('_');
            } else if c.is_ascii_alphanumeric() || "_-:.,'=()[]<>".contains(c) {
                out.push(c);
            }
        }
        if out.len() > 90 {
            break;
        }
    }
    out
}

pub fn val_str(v: &RecordValue) -> String {
    match v {
        RecordValue::Single(f) => format!("s{:08x}", f.to_bits()),
        RecordValue::Double(f) => format!("d{:016x}", f.to_bits()),
        RecordValue::ScaledInteger(i) => format!("k{}", i),
        RecordValue::Integer(i) => format!("i{}", i),
    }
}

pub fn val_eq(a: &RecordValue, b: &RecordValue) -> bool {
    match (a, b) {
        (RecordValue::Single(x), RecordValue::Single(y)) => x.to_bits() == y.to_bits(),
        (RecordValue::Double(x), RecordValue::Double(y)) => x.to_bits() == y.to_bits(),
        (RecordValue::ScaledInteger(x), RecordValue::ScaledInteger(y)) => x == y,
        (RecordValue::Integer(x), RecordValue::Integer(y)) => x == y,
        _ => false,
    }
}

fn of32(v: &Option<f32>) -> String {
    match v {
        Some(x) if x.is_nan() => "nan".into(),
        Some(x) => format!("{:08x}", x.to_bits()),
        None => "-".into(),
    }
}
/// f64 rendered exactly, but every NaN is the same (XML text cannot carry payloads)
pub fn f64s(x: f64) -> String {
    if x.is_nan() {
        "nan".into()
    } else {
        format!("{:016x}", x.to_bits())
    }
}
fn of64(v: &Option<f64>) -> String {
    match v {
        Some(x) => f64s(*x),
        None => "-".into(),
    }
}
fn ostr(v: &Option<String>) -> String {
    match v {
        Some(s) => format!("{:?}", s),
        None => "-".into(),
    }
}
fn oi64(v: &Option<i64>) -> String {
    match v {
        Some(s) => format!("{}", s),
        None => "-".into(),
    }
}

pub fn dt_str(d: &RecordDataType) -> String {
    match d {
        RecordDataType::Single { min, max } => format!("Single({},{})", of32(min), of32(max)),
        RecordDataType::Double { min, max } => format!("Double({},{})", of64(min), of64(max)),
        RecordDataType::ScaledInteger { min, max, scale, offset } => {
            format!("Scaled({},{},{},{})", min, max, f64s(*scale), f64s(*offset))
        }
        RecordDataType::Integer { min, max } => format!("Int({},{})", min, max),
    }
}

pub fn name_str(n: &RecordName) -> String {
    match n {
        RecordName::Unknown { namespace, name } => format!("{}:{}", namespace, name),
        other => format!("{:?}", other),
    }
}

pub fn rec_str(r: &Record) -> String {
    format!("{}={}", name_str(&r.name), dt_str(&r.data_type))
}

pub fn proto_str(p: &[Record]) -> String {
    p.iter().map(rec_str).collect::<Vec<_>>().join(";")
}

pub fn datetime_str(d: &Option<DateTime>) -> String {
    match d {
        Some(d) => format!("{}/{}", f64s(d.gps_time), d.atomic_reference),
        None => "-".into(),
    }
}

pub fn transform_str(t: &Option<Transform>) -> String {
    match t {
        Some(t) => format!(
            "q({},{},{},{})t({},{},{})",
            f64s(t.rotation.w),
            f64s(t.rotation.x),
            f64s(t.rotation.y),
            f64s(t.rotation.z),
            f64s(t.translation.x),
            f64s(t.translation.y),
            f64s(t.translation.z)
        ),
        None => "-".into(),
    }
}

pub fn oval_str(v: &Option<RecordValue>) -> String {
    match v {
        Some(RecordValue::Single(f)) if f.is_nan() => "snan".into(),
        Some(RecordValue::Double(f)) if f.is_nan() => "dnan".into(),
        Some(v) => val_str(v),
        None => "-".into(),
    }
}

pub fn cbounds_str(b: &Option<CartesianBounds>) -> String {
    match b {
        Some(b) => format!(
            "x[{},{}]y[{},{}]z[{},{}]",
            of64(&b.x_min),
            of64(&b.x_max),
            of64(&b.y_min),
            of64(&b.y_max),
            of64(&b.z_min),
            of64(&b.z_max)
        ),
        None => "-".into(),
    }
}
pub fn sbounds_str(b: &Option<SphericalBounds>) -> String {
    match b {
        Some(b) => format!(
            "r[{},{}]e[{},{}]a[{},{}]",
            of64(&b.range_min),
            of64(&b.range_max),
            of64(&b.elevation_min),
            of64(&b.elevation_max),
            of64(&b.azimuth_start),
            of64(&b.azimuth_end)
        ),
        None => "-".into(),
    }
}
pub fn ibounds_str(b: &Option<IndexBounds>) -> String {
    match b {
        Some(b) => format!(
            "row[{},{}]col[{},{}]ret[{},{}]",
            oi64(&b.row_min),
            oi64(&b.row_max),
            oi64(&b.column_min),
            oi64(&b.column_max),
            oi64(&b.return_min),
            oi64(&b.return_max)
        ),
        None => "-".into(),
    }
}
pub fn ilimits_str(l: &Option<IntensityLimits>) -> String {
    match l {
        Some(l) => format!("[{},{}]", oval_str(&l.intensity_min), oval_str(&l.intensity_max)),
        None => "-".into(),
    }
}
pub fn climits_str(l: &Option<ColorLimits>) -> String {
    match l {
        Some(l) => format!(
            "r[{},{}]g[{},{}]b[{},{}]",
            oval_str(&l.red_min),
            oval_str(&l.red_max),
            oval_str(&l.green_min),
            oval_str(&l.green_max),
            oval_str(&l.blue_min),
            oval_str(&l.blue_max)
        ),
        None => "-".into(),
    }
}

/// All descriptor fields as (name, rendered value); `with_offset` controls whether file
/// offsets take part (they do for same-file comparisons, not for copy comparisons).
pub fn pc_fields(pc: &PointCloud, with_offset: bool) -> Vec<(&'static str, String)> {
    let mut v = vec![
        ("guid", ostr(&pc.guid)),
        ("records", pc.records.to_string()),
        ("prototype", proto_str(&pc.prototype)),
        (
            "original_guids",
            match &pc.original_guids {
                Some(g) => format!("{:?}", g),
                None => "-".into(),
            },
        ),
        ("name", ostr(&pc.name)),
        ("description", ostr(&pc.description)),
        ("cartesian_bounds", cbounds_str(&pc.cartesian_bounds)),
        ("spherical_bounds", sbounds_str(&pc.spherical_bounds)),
        ("index_bounds", ibounds_str(&pc.index_bounds)),
        ("intensity_limits", ilimits_str(&pc.intensity_limits)),
        ("color_limits", climits_str(&pc.color_limits)),
        ("transform", transform_str(&pc.transform)),
        ("acquisition_start", datetime_str(&pc.acquisition_start)),
        ("acquisition_end", datetime_str(&pc.acquisition_end)),
        ("sensor_vendor", ostr(&pc.sensor_vendor)),
        ("sensor_model", ostr(&pc.sensor_model)),
        ("sensor_serial", ostr(&pc.sensor_serial)),
        ("sensor_hw_version", ostr(&pc.sensor_hw_version)),
        ("sensor_sw_version", ostr(&pc.sensor_sw_version)),
        ("sensor_fw_version", ostr(&pc.sensor_fw_version)),
        ("temperature", of64(&pc.temperature)),
        ("humidity", of64(&pc.humidity)),
        ("atmospheric_pressure", of64(&pc.atmospheric_pressure)),
    ];
    if with_offset {
        v.push(("file_offset", pc.file_offset.to_string()));
    }
    v
}

pub fn pc_str(pc: &PointCloud, with_offset: bool) -> String {
    pc_fields(pc, with_offset)
        .into_iter()
        .map(|(k, v)| format!("{}={}", k, v))
        .collect::<Vec<_>>()
        .join("|")
}

fn blob_str(b: &Blob, with_offset: bool) -> String {
    if with_offset {
        format!("blob@{}+{}", b.offset, b.length)
    } else {
        format!("blob+{}", b.length)
    }
}
fn oblob_str(b: &Option<Blob>, w: bool) -> String {
    match b {
        Some(b) => blob_str(b, w),
        None => "-".into(),
    }
}

pub fn img_fields(img: &Image, w: bool) -> Vec<(&'static str, String)> {
    let vis = match &img.visual_reference {
        Some(v) => format!(
            "{:?}/{}/mask={}/{}x{}",
            v.blob.format,
            blob_str(&v.blob.data, w),
            oblob_str(&v.mask, w),
            v.properties.width,
            v.properties.height
        ),
        None => "-".into(),
    };
    let proj = match &img.projection {
        Some(Projection::Pinhole(p)) => format!(
            "pinhole/{:?}/{}/mask={}/{}x{}/fl={}/pw={}/ph={}/px={}/py={}",
            p.blob.format,
            blob_str(&p.blob.data, w),
            oblob_str(&p.mask, w),
            p.properties.width,
            p.properties.height,
            f64s(p.properties.focal_length),
            f64s(p.properties.pixel_width),
            f64s(p.properties.pixel_height),
            f64s(p.properties.principal_x),
            f64s(p.properties.principal_y)
        ),
        Some(Projection::Spherical(p)) => format!(
            "spherical/{:?}/{}/mask={}/{}x{}/pw={}/ph={}",
            p.blob.format,
            blob_str(&p.blob.data, w),
            oblob_str(&p.mask, w),
            p.properties.width,
            p.properties.height,
            f64s(p.properties.pixel_width),
            f64s(p.properties.pixel_height)
        ),
        Some(Projection::Cylindrical(p)) => format!(
            "cylindrical/{:?}/{}/mask={}/{}x{}/r={}/py={}/pw={}/ph={}",
            p.blob.format,
            blob_str(&p.blob.data, w),
            oblob_str(&p.mask, w),
            p.properties.width,
            p.properties.height,
            f64s(p.properties.radius),
            f64s(p.properties.principal_y),
            f64s(p.properties.pixel_width),
            f64s(p.properties.pixel_height)
        ),
        None => "-".into(),
    };
    vec![
        ("guid", ostr(&img.guid)),
        ("visual_reference", vis),
        ("projection", proj),
        ("transform", transform_str(&img.transform)),
        ("pointcloud_guid", ostr(&img.pointcloud_guid)),
        ("name", ostr(&img.name)),
        ("description", ostr(&img.description)),
        ("acquisition", datetime_str(&img.acquisition)),
        ("sensor_vendor", ostr(&img.sensor_vendor)),
        ("sensor_model", ostr(&img.sensor_model)),
        ("sensor_serial", ostr(&img.sensor_serial)),
    ]
}

pub fn img_str(img: &Image, w: bool) -> String {
    img_fields(img, w).into_iter().map(|(k, v)| format!("{}={}", k, v)).collect::<Vec<_>>().join("|")
}

/// all blobs an image refers to, with a role label
pub fn img_blobs(img: &Image) -> Vec<(String, Blob)> {
    let mut v = Vec::new();
    if let Some(vr) = &img.visual_reference {
        v.push(("visual".to_string(), vr.blob.data.clone()));
        if let Some(m) = &vr.mask {
            v.push(("visual_mask".to_string(), m.clone()));
        }
    }
    match &img.projection {
        Some(Projection::Pinhole(p)) => {
            v.push(("proj".into(), p.blob.data.clone()));
            if let Some(m) = &p.mask {
                v.push(("proj_mask".into(), m.clone()));
            }
        }
        Some(Projection::Spherical(p)) => {
            v.push(("proj".into(), p.blob.data.clone()));
            if let Some(m) = &p.mask {
                v.push(("proj_mask".into(), m.clone()));
            }
        }
        Some(Projection::Cylindrical(p)) => {
            v.push(("proj".into(), p.blob.data.clone()));
            if let Some(m) = &p.mask {
                v.push(("proj_mask".into(), m.clone()));
            }
        }
        None => {}
    }
    v
}

pub fn raw_str(p: &[RecordValue]) -> String {
    p.iter().map(val_str).collect::<Vec<_>>().join(",")
}

fn f32s(x: f32) -> String {
    format!("{:08x}", x.to_bits())
}

pub fn point_str(p: &Point) -> String {
    let c = match &p.cartesian {
        CartesianCoordinate::Valid { x, y, z } => {
            format!("V({:016x},{:016x},{:016x})", x.to_bits(), y.to_bits(), z.to_bits())
        }
        CartesianCoordinate::Direction { x, y, z } => {
            format!("D({:016x},{:016x},{:016x})", x.to_bits(), y.to_bits(), z.to_bits())
        }
        CartesianCoordinate::Invalid => "I".into(),
    };
    let s = match &p.spherical {
        SphericalCoordinate::Valid { range, azimuth, elevation } => {
            format!("V({:016x},{:016x},{:016x})", range.to_bits(), azimuth.to_bits(), elevation.to_bits())
        }
        SphericalCoordinate::Direction { azimuth, elevation } => {
            format!("D({:016x},{:016x})", azimuth.to_bits(), elevation.to_bits())
        }
        SphericalCoordinate::Invalid => "I".into(),
    };
    let col = match &p.color {
        Some(c) => format!("({},{},{})", f32s(c.red), f32s(c.green), f32s(c.blue)),
        None => "-".into(),
    };
    let int = match p.intensity {
        Some(i) => f32s(i),
        None => "-".into(),
    };
    format!("c={} s={} col={} i={} r={} k={}", c, s, col, int, p.row, p.column)
}

#[derive(Clone, Debug, PartialEq)]
pub enum End {
    Done,        // iterator returned None
    Err(String), // first Err (rendered)
    Cap,         // harness stopped at its yield cap
}

impl End {
    pub fn render(&self) -> String {
        match self {
            End::Done => "none".into(),
            End::Err(e) => format!("err:{}", e),
            End::Cap => "cap".into(),
        }
    }
}

pub struct RawRead {
    pub items: Vec<RawValues>,
    pub end: End,
}

/// Drive the raw iterator until None, first Err, or `cap` items.
pub fn read_raw<T: Read + Seek>(r: &mut E57Reader<T>, pc: &PointCloud, cap: usize) -> std::result::Result<RawRead, String> {
    let it = match r.pointcloud_raw(pc) {
        Ok(it) => it,
        Err(e) => return Err(err_str(&e)),
    };
    let mut items = Vec::new();
    let mut end = End::Done;
    for x in it {
        match x {
            Ok(p) => {
                if items.len() >= cap {
                    end = End::Cap;
                    break;
                }
                items.push(p)
            }
            Err(e) => {
                end = End::Err(err_str(&e));
                break;
            }
        }
    }
    Ok(RawRead { items, end })
}

#[derive(Clone, Copy, Debug, PartialEq, Eq)]
pub struct Opts(pub u8);
impl Opts {
    /// the library's defaults: s2c (bit 0) on, c2s (bit 1) off, i2c, ni, nc, pose on
    pub const DEFAULT: Opts = Opts(0b111101);
    pub fn s2c(&self) -> bool {
        self.0 & 1 != 0
    }
    pub fn c2s(&self) -> bool {
        self.0 & 2 != 0
    }
    pub fn i2c(&self) -> bool {
        self.0 & 4 != 0
    }
    pub fn ni(&self) -> bool {
        self.0 & 8 != 0
    }
    pub fn nc(&self) -> bool {
        self.0 & 16 != 0
    }
    pub fn pose(&self) -> bool {
        self.0 & 32 != 0
    }
}

pub struct SimpleRead {
    pub items: Vec<Point>,
    pub end: End,
}

pub fn read_simple<T: Read + Seek>(
    r: &mut E57Reader<T>,
    pc: &PointCloud,
    o: Opts,
    cap: usize,
) -> std::result::Result<SimpleRead, String> {
    let mut it = match r.pointcloud_simple(pc) {
        Ok(it) => it,
        Err(e) => return Err(err_str(&e)),
    };
    it.spherical_to_cartesian(o.s2c());
    it.cartesian_to_spherical(o.c2s());
    it.intensity_to_color(o.i2c());
    it.normalize_intensity(o.ni());
    it.normalize_color(o.nc());
    it.apply_pose(o.pose());
    let mut items = Vec::new();
    let mut end = End::Done;
    for x in it {
        match x {
            Ok(p) => {
                if items.len() >= cap {
                    end = End::Cap;
                    break;
                }
                items.push(p)
            }
            Err(e) => {
                end = End::Err(err_str(&e));
                break;
            }
        }
    }
    Ok(SimpleRead { items, end })
}

pub fn read_blob<T: Read + Seek>(r: &mut E57Reader<T>, b: &Blob) -> std::result::Result<(u64, Vec<u8>), String> {
    let mut out = Vec::new();
    match r.blob(b, &mut out) {
        Ok(n) => Ok((n, out)),
        Err(e) => Err(err_str(&e)),
    }
}

pub fn header_str(h: &Header) -> String {
    format!(
        "sig={:?} v={}.{} len={} xmloff={} xmllen={} page={}",
        String::from_utf8_lossy(&h.signature),
        h.major,
        h.minor,
        h.phys_length,
        h.phys_xml_offset,
        h.xml_length,
        h.page_size
    )
}

/// Everything the reader reports without touching point/blob data.
pub fn meta_lines<T: Read + Seek>(r: &E57Reader<T>, with_xml: bool) -> Vec<String> {
    let mut v = Vec::new();
    v.push(format!("header {}", header_str(&r.header())));
    if with_xml {
        v.push(format!("xml {:016x} len={}", fnv64(r.xml().as_bytes()), r.xml().len()));
    }
    v.push(format!("format {:?}", r.format_name()));
    v.push(format!("guid {:?}", r.guid()));
    v.push(format!("libver {:?}", r.library_version()));
    v.push(format!("creation {}", datetime_str(&r.creation())));
    v.push(format!("coord {:?}", r.coordinate_metadata()));
    let mut exts: Vec<String> = r.extensions().iter().map(|e| format!("{}={}", e.namespace, e.url)).collect();
    exts.sort();
    v.push(format!("extensions {:?}", exts));
    for (i, pc) in r.pointclouds().iter().enumerate() {
        v.push(format!("pc{} {}", i, pc_str(pc, true)));
    }
    for (i, img) in r.images().iter().enumerate() {
        v.push(format!("img{} {}", i, img_str(img, true)));
    }
    v
}

// ---------------------------------------------------------------- JSON dump (for Python oracles)

fn jval(v: &RecordValue) -> J {
    match v {
        RecordValue::Single(f) => J::f32b(*f),
        RecordValue::Double(f) => J::f64b(*f),
        RecordValue::ScaledInteger(i) => J::Str(format!("k{}", i)),
        RecordValue::Integer(i) => J::Str(format!("i{}", i)),
    }
}
fn jostr(v: &Option<String>) -> J {
    J::opt(v, |s| J::s(s))
}
fn jof64(v: &Option<f64>) -> J {
    J::opt(v, |x| J::f64b(*x))
}
fn joi64(v: &Option<i64>) -> J {
    J::opt(v, |x| J::Str(x.to_string()))
}
fn joval(v: &Option<RecordValue>) -> J {
    J::opt(v, jval)
}
fn jdt(d: &Option<DateTime>) -> J {
    J::opt(d, |d| J::obj().set("gps", J::f64b(d.gps_time)).set("atomic", J::Bool(d.atomic_reference)))
}
fn jtransform(t: &Option<Transform>) -> J {
    J::opt(t, |t| {
        J::obj()
            .set(
                "q",
                J::Arr(vec![
                    J::f64b(t.rotation.w),
                    J::f64b(t.rotation.x),
                    J::f64b(t.rotation.y),
                    J::f64b(t.rotation.z),
                ]),
            )
            .set(
                "t",
                J::Arr(vec![J::f64b(t.translation.x), J::f64b(t.translation.y), J::f64b(t.translation.z)]),
            )
    })
}

pub fn jrecord(r: &Record) -> J {
    let (ns, name) = match &r.name {
        RecordName::Unknown { namespace, name } => (J::s(namespace), name.clone()),
        other => (J::Null, tag_of(other)),
    };
    let mut o = J::obj().set("ns", ns).set("name", J::s(name));
    match &r.data_type {
        RecordDataType::Single { min, max } => {
            o.put("type", J::s("single"));
            o.put("min", J::opt(min, |x| J::f32b(*x)));
            o.put("max", J::opt(max, |x| J::f32b(*x)));
        }
        RecordDataType::Double { min, max } => {
            o.put("type", J::s("double"));
            o.put("min", J::opt(min, |x| J::f64b(*x)));
            o.put("max", J::opt(max, |x| J::f64b(*x)));
        }
        RecordDataType::ScaledInteger { min, max, scale, offset } => {
            o.put("type", J::s("scaled"));
            o.put("min", J::Str(min.to_string()));
            o.put("max", J::Str(max.to_string()));
            o.put("scale", J::f64b(*scale));
            o.put("offset", J::f64b(*offset));
        }
        RecordDataType::Integer { min, max } => {
            o.put("type", J::s("integer"));
            o.put("min", J::Str(min.to_string()));
            o.put("max", J::Str(max.to_string()));
        }
    }
    o
}

pub fn tag_of(n: &RecordName) -> String {
    match n {
        RecordName::CartesianX => "cartesianX",
        RecordName::CartesianY => "cartesianY",
        RecordName::CartesianZ => "cartesianZ",
        RecordName::CartesianInvalidState => "cartesianInvalidState",
        RecordName::SphericalRange => "sphericalRange",
        RecordName::SphericalAzimuth => "sphericalAzimuth",
        RecordName::SphericalElevation => "sphericalElevation",
        RecordName::SphericalInvalidState => "sphericalInvalidState",
        RecordName::Intensity => "intensity",
        RecordName::IsIntensityInvalid => "isIntensityInvalid",
        RecordName::ColorRed => "colorRed",
        RecordName::ColorGreen => "colorGreen",
        RecordName::ColorBlue => "colorBlue",
        RecordName::IsColorInvalid => "isColorInvalid",
        RecordName::RowIndex => "rowIndex",
        RecordName::ColumnIndex => "columnIndex",
        RecordName::ReturnCount => "returnCount",
        RecordName::ReturnIndex => "returnIndex",
        RecordName::TimeStamp => "timeStamp",
        RecordName::IsTimeStampInvalid => "isTimeStampInvalid",
        RecordName::Unknown { name, .. } => name.as_str(),
    }
    .to_string()
}

pub fn jpc(pc: &PointCloud) -> J {
    J::obj()
        .set("guid", jostr(&pc.guid))
        .set("file_offset", J::Str(pc.file_offset.to_string()))
        .set("records", J::Str(pc.records.to_string()))
        .set("prototype", J::Arr(pc.prototype.iter().map(jrecord).collect()))
        .set(
            "original_guids",
            J::opt(&pc.original_guids, |g| J::Arr(g.iter().map(|s| J::s(s)).collect())),
        )
        .set("name", jostr(&pc.name))
        .set("description", jostr(&pc.description))
        .set(
            "cartesian_bounds",
            J::opt(&pc.cartesian_bounds, |b| {
                J::Arr(vec![
                    jof64(&b.x_min),
                    jof64(&b.x_max),
                    jof64(&b.y_min),
                    jof64(&b.y_max),
                    jof64(&b.z_min),
                    jof64(&b.z_max),
                ])
            }),
        )
        .set(
            "spherical_bounds",
            J::opt(&pc.spherical_bounds, |b| {
                J::Arr(vec![
                    jof64(&b.range_min),
                    jof64(&b.range_max),
                    jof64(&b.elevation_min),
                    jof64(&b.elevation_max),
                    jof64(&b.azimuth_start),
                    jof64(&b.azimuth_end),
                ])
            }),
        )
        .set(
            "index_bounds",
            J::opt(&pc.index_bounds, |b| {
                J::Arr(vec![
                    joi64(&b.row_min),
                    joi64(&b.row_max),
                    joi64(&b.column_min),
                    joi64(&b.column_max),
                    joi64(&b.return_min),
                    joi64(&b.return_max),
                ])
            }),
        )
        .set(
            "intensity_limits",
            J::opt(&pc.intensity_limits, |l| J::Arr(vec![joval(&l.intensity_min), joval(&l.intensity_max)])),
        )
        .set(
            "color_limits",
            J::opt(&pc.color_limits, |l| {
                J::Arr(vec![
                    joval(&l.red_min),
                    joval(&l.red_max),
                    joval(&l.green_min),
                    joval(&l.green_max),
                    joval(&l.blue_min),
                    joval(&l.blue_max),
                ])
            }),
        )
        .set("transform", jtransform(&pc.transform))
        .set("acquisition_start", jdt(&pc.acquisition_start))
        .set("acquisition_end", jdt(&pc.acquisition_end))
        .set("sensor_vendor", jostr(&pc.sensor_vendor))
        .set("sensor_model", jostr(&pc.sensor_model))
        .set("sensor_serial", jostr(&pc.sensor_serial))
        .set("sensor_hw_version", jostr(&pc.sensor_hw_version))
        .set("sensor_sw_version", jostr(&pc.sensor_sw_version))
        .set("sensor_fw_version", jostr(&pc.sensor_fw_version))
        .set("temperature", jof64(&pc.temperature))
        .set("humidity", jof64(&pc.humidity))
        .set("atmospheric_pressure", jof64(&pc.atmospheric_pressure))
}

fn jblob(b: &Blob) -> J {
    J::obj().set("offset", J::Str(b.offset.to_string())).set("length", J::Str(b.length.to_string()))
}

fn jrep(kind: &str, blob: &ImageBlob, mask: &Option<Blob>, props: Vec<(&str, J)>) -> J {
    let mut o = J::obj()
        .set("kind", J::s(kind))
        .set("format", J::s(format!("{:?}", blob.format).to_lowercase()))
        .set("blob", jblob(&blob.data))
        .set("mask", J::opt(mask, jblob));
    for (k, v) in props {
        o.put(k, v);
    }
    o
}

pub fn jimg(img: &Image) -> J {
    let vis = J::opt(&img.visual_reference, |v| {
        jrep(
            "visual",
            &v.blob,
            &v.mask,
            vec![("width", J::i(v.properties.width)), ("height", J::i(v.properties.height))],
        )
    });
    let proj = J::opt(&img.projection, |p| match p {
        Projection::Pinhole(p) => jrep(
            "pinhole",
            &p.blob,
            &p.mask,
            vec![
                ("width", J::i(p.properties.width)),
                ("height", J::i(p.properties.height)),
                ("focal_length", J::f64b(p.properties.focal_length)),
                ("pixel_width", J::f64b(p.properties.pixel_width)),
                ("pixel_height", J::f64b(p.properties.pixel_height)),
                ("principal_x", J::f64b(p.properties.principal_x)),
                ("principal_y", J::f64b(p.properties.principal_y)),
            ],
        ),
        Projection::Spherical(p) => jrep(
            "spherical",
            &p.blob,
            &p.mask,
            vec![
                ("width", J::i(p.properties.width)),
                ("height", J::i(p.properties.height)),
                ("pixel_width", J::f64b(p.properties.pixel_width)),
                ("pixel_height", J::f64b(p.properties.pixel_height)),
            ],
        ),
        Projection::Cylindrical(p) => jrep(
            "cylindrical",
            &p.blob,
            &p.mask,
            vec![
                ("width", J::i(p.properties.width)),
                ("height", J::i(p.properties.height)),
                ("radius", J::f64b(p.properties.radius)),
                ("principal_y", J::f64b(p.properties.principal_y)),
                ("pixel_width", J::f64b(p.properties.pixel_width)),
                ("pixel_height", J::f64b(p.properties.pixel_height)),
            ],
        ),
    });
    J::obj()
        .set("guid", jostr(&img.guid))
        .set("visual_reference", vis)
        .set("projection", proj)
        .set("transform", jtransform(&img.transform))
        .set("pointcloud_guid", jostr(&img.pointcloud_guid))
        .set("name", jostr(&img.name))
        .set("description", jostr(&img.description))
        .set("acquisition", jdt(&img.acquisition))
        .set("sensor_vendor", jostr(&img.sensor_vendor))
        .set("sensor_model", jostr(&img.sensor_model))
        .set("sensor_serial", jostr(&img.sensor_serial))
}

pub fn jpoint(p: &Point) -> J {
    J::Str(point_str(p))
}

pub fn jraw(p: &[RecordValue]) -> J {
    J::Str(raw_str(p))
}

/// Full observation of a file as JSON (one object). `simple_opts`: option vectors to run the
/// simple iterator with. `extra_blobs`: additional blob descriptors to read.
pub fn dump_file(bytes: Vec<u8>, simple_opts: &[Opts], cap: usize, with_points: bool) -> J {
    let mut o = J::obj();
    let cur = std::io::Cursor::new(bytes);
    let mut r = match E57Reader::new(cur) {
        Ok(r) => r,
        Err(e) => {
            o.put("open", J::obj().set("err", J::s(err_str(&e))));
            return o;
        }
    };
    o.put("open", J::s("ok"));
    let h = r.header();
    o.put(
        "header",
        J::obj()
            .set("major", J::i(h.major))
            .set("minor", J::i(h.minor))
            .set("phys_length", J::Str(h.phys_length.to_string()))
            .set("phys_xml_offset", J::Str(h.phys_xml_offset.to_string()))
            .set("xml_length", J::Str(h.xml_length.to_string()))
            .set("page_size", J::Str(h.page_size.to_string())),
    );
    o.put("xml", J::s(r.xml()));
    o.put("format_name", J::s(r.format_name()));
    o.put("guid", J::s(r.guid()));
    o.put("library_version", J::opt(&r.library_version().map(|s| s.to_string()), |s| J::s(s)));
    o.put("creation", jdt(&r.creation()));
    o.put("coordinate_metadata", J::opt(&r.coordinate_metadata().map(|s| s.to_string()), |s| J::s(s)));
    o.put(
        "extensions",
        J::Arr(r.extensions().iter().map(|e| J::obj().set("ns", J::s(&e.namespace)).set("url", J::s(&e.url))).collect()),
    );
    let pcs = r.pointclouds();
    let mut jpcs = Vec::new();
    for pc in &pcs {
        let mut jp = J::obj().set("desc", jpc(pc));
        if with_points {
            match read_raw(&mut r, pc, cap) {
                Ok(rr) => {
                    jp.put("raw", J::Arr(rr.items.iter().map(|p| jraw(p)).collect()));
                    jp.put("raw_end", J::s(rr.end.render()));
                }
                Err(e) => jp.put("raw_open_err", J::s(e)),
            }
            let mut js = Vec::new();
            for op in simple_opts {
                match read_simple(&mut r, pc, *op, cap) {
                    Ok(sr) => js.push(
                        J::obj()
                            .set("opts", J::i(op.0))
                            .set("items", J::Arr(sr.items.iter().map(jpoint).collect()))
                            .set("end", J::s(sr.end.render())),
                    ),
                    Err(e) => js.push(J::obj().set("opts", J::i(op.0)).set("open_err", J::s(e))),
                }
            }
            jp.put("simple", J::Arr(js));
        }
        jpcs.push(jp);
    }
    o.put("pointclouds", J::Arr(jpcs));
    let imgs = r.images();
    let mut jimgs = Vec::new();
    for img in &imgs {
        let mut ji = J::obj().set("desc", jimg(img));
        let mut jb = Vec::new();
        for (role, b) in img_blobs(img) {
            let e = match read_blob(&mut r, &b) {
                Ok((n, data)) => J::obj()
                    .set("role", J::s(role))
                    .set("ret", J::Str(n.to_string()))
                    .set("len", J::u(data.len()))
                    .set("fnv", J::Str(format!("{:016x}", fnv64(&data))))
                    .set("hex", if data.len() <= 64 { J::hex(&data) } else { J::Null }),
                Err(e) => J::obj().set("role", J::s(role)).set("err", J::s(e)),
            };
            jb.push(e);
        }
        ji.put("blobs", J::Arr(jb));
        jimgs.push(ji);
    }
    o.put("images", J::Arr(jimgs));
    o
}
