//! Workload "fault" (C16): device faults surface as errors; short I/O changes nothing.
//! (a) chunking schedules for reads and writes: byte-identical files, identical read results.
//! (b) one injected error at EVERY device operation index of the writer program and of the
//!     reader suite: the public call in progress must return Err (no panic, no Ok), and
//!     whenever top-level finalize returns Ok the device holds the complete file.

use crate::dev::{Chunking, Dev, FaultKind, OpKind};
use crate::json::J;
use crate::obs::*;
use crate::rng::Rng;
use crate::scene::*;
use crate::w_crc::all_blobs;
use crate::{Args, Reporter};
use e57::*;

fn small_scene(r: &mut Rng, cover: &mut crate::Cover) -> Scene {
    let mut k = Knobs::base();
    k.max_items = 3;
    k.big_points = false;
    k.max_records = 8;
    let mut s = gen_scene(r, &k, cover);
    let mut has = false;
    for it in s.items.iter_mut() {
        match it {
            Item::Pc(pc) => {
                has = true;
                pc.meta.intensity_limits = None;
                pc.meta.color_limits = None;
                pc.points.truncate(30);
            }
            Item::Blob(b) => b.truncate(1500),
            _ => {}
        }
    }
    if !has {
        let pc = gen_pc(r, &k, &[], cover);
        s.items.push(Item::Pc(PcSpec { meta: PcMeta::default(), ..pc }));
    }
    s
}

/// the read suite as a list of (label, result) with one public operation per entry
fn read_suite(dev: Dev, extra_blobs: &[Blob], call_base: u32) -> Vec<(String, std::result::Result<String, String>, u32)> {
    let mut out = Vec::new();
    let mut call = call_base;
    let mut next = |dev: &Dev| {
        call += 1;
        dev.set_call(call);
        call
    };
    let c = next(&dev);
    let d2 = dev.clone();
    let rd = guarded(move || E57Reader::new(d2));
    dev.set_call(0);
    let mut rd = match rd {
        Ok(Ok(rd)) => {
            out.push(("new".to_string(), Ok(meta_lines(&rd, true).join("\n")), c));
            rd
        }
        Ok(Err(e)) => {
            out.push(("new".to_string(), Err(err_str(&e)), c));
            return out;
        }
        Err(p) => {
            out.push(("new".to_string(), Err(format!("PANIC {}", p)), c));
            return out;
        }
    };
    let pcs = rd.pointclouds();
    let blobs = all_blobs(&rd.images(), extra_blobs);
    for (i, pc) in pcs.iter().enumerate() {
        let c = next(&dev);
        let r = guarded(|| read_raw(&mut rd, pc, 1 << 20));
        dev.set_call(0);
        out.push((
            format!("raw{}", i),
            match r {
                Err(p) => Err(format!("PANIC {}", p)),
                Ok(Err(e)) => Err(e),
                Ok(Ok(rr)) => match &rr.end {
                    End::Err(e) => Err(e.clone()),
                    _ => Ok(rr.items.iter().map(|p| raw_str(p)).collect::<Vec<_>>().join(";")),
                },
            },
            c,
        ));
        let c = next(&dev);
        let r = guarded(|| read_simple(&mut rd, pc, Opts::DEFAULT, 1 << 20));
        dev.set_call(0);
        out.push((
            format!("simple{}", i),
            match r {
                Err(p) => Err(format!("PANIC {}", p)),
                Ok(Err(e)) => Err(e),
                Ok(Ok(rr)) => match &rr.end {
                    End::Err(e) => Err(e.clone()),
                    _ => Ok(rr.items.iter().map(point_str).collect::<Vec<_>>().join(";")),
                },
            },
            c,
        ));
    }
    for (i, b) in blobs.iter().enumerate() {
        let c = next(&dev);
        let r = guarded(|| read_blob(&mut rd, b));
        dev.set_call(0);
        out.push((
            format!("blob{}", i),
            match r {
                Err(p) => Err(format!("PANIC {}", p)),
                Ok(Err(e)) => Err(e),
                Ok(Ok((n, d))) => Ok(format!("{}:{:016x}", n, crate::json::fnv64(&d))),
            },
            c,
        ));
    }
    out
}

fn chunkings(r: &mut Rng, n: usize) -> Vec<(Chunking, &'static str)> {
    let mut v: Vec<(Chunking, &'static str)> = vec![(Chunking::One, "one-byte"), (Chunking::Alt(false), "alternating"), (Chunking::Rand(Rng::new(r.u64())), "random"), (Chunking::RandIntr(Rng::new(r.u64())), "random+interrupted")];
    while v.len() < n {
        let k = 2 + r.usize(1100);
        v.push((Chunking::Small(k), "fixed-k"));
        v.push((Chunking::Rand(Rng::new(r.u64())), "random"));
    }
    v.truncate(n);
    v
}

pub fn run(a: &Args, rep: &mut Reporter) {
    let n_sched = if a.thorough() { 16 } else { 4 };
    let (done, reason) = crate::run_cases(a, rep, |idx, cs, rep| {
        let mut r = Rng::new(cs);
        let mut cover = std::mem::take(&mut rep.cover);
        let mut scene = small_scene(&mut r, &mut cover);
        scene.stop_on_err = true;
        // ---------- fault-free baseline
        let dev0 = Dev::empty();
        dev0.set_record(true, false);
        let run0 = run_scene(&scene, dev0.clone(), Judge::Conforming);
        if !run0.finalized {
            rep.stat("programs_not_finalized", 1);
            rep.cover = cover;
            return;
        }
        let base_bytes = dev0.bytes();
        let total_ops = dev0.ops_done();
        let base_ops = dev0.take_ops();
        let extra: Vec<Blob> = run0.blobs.iter().map(|(b, _)| b.clone()).collect();
        let rdev = Dev::new(base_bytes.clone());
        rdev.set_record(true, false);
        let base_read = read_suite(rdev.clone(), &extra, 0);
        let read_total_ops = rdev.ops_done();
        if base_read.iter().any(|(_, r, _)| r.is_err()) {
            rep.stat("baseline_read_failed", 1);
            rep.cover = cover;
            return;
        }
        rep.stat("programs", 1);
        rep.stat("writer_device_ops", total_ops);
        rep.stat("reader_device_ops", read_total_ops);
        let calls_desc: Vec<String> = run0.calls.iter().map(|c| c.op.clone()).collect();

        // ---------- (a) chunking schedules
        for (wc, wname) in chunkings(&mut r, n_sched) {
            let d = Dev::empty();
            d.set_chunking(Chunking::Rand(Rng::new(r.u64())), wc);
            let run = run_scene(&scene, d.clone(), Judge::Conforming);
            rep.stat("schedules_write", 1);
            cover.hit(&format!("schedule:write:{}", wname));
            for v in &run.violations {
                if v.sig.starts_with("panic") {
                    rep.violation("C16", &format!("short-write/{}", v.sig), idx, &v.detail);
                }
            }
            if !run.finalized {
                rep.violation("C16", &format!("short-write/program-failed/{}", wname), idx, &format!("program that succeeds with full transfers fails under write chunking '{}': {:?}", wname, run.calls.iter().filter(|c| !c.ok).map(|c| format!("{} -> {:?}", c.op, c.err)).collect::<Vec<_>>()));
                continue;
            }
            if d.bytes() != base_bytes {
                let b = d.bytes();
                let first = b.iter().zip(base_bytes.iter()).position(|(x, y)| x != y).unwrap_or(b.len().min(base_bytes.len()));
                rep.violation("C16", &format!("short-write/different-file/{}", wname), idx, &format!("file written under write chunking '{}' differs from the fault-free file (sizes {} vs {}, first difference at byte {})", wname, b.len(), base_bytes.len(), first));
            }
        }
        for (rc, rname) in chunkings(&mut r, n_sched) {
            let d = Dev::new(base_bytes.clone());
            d.set_chunking(rc, Chunking::Full);
            let res = read_suite(d, &extra, 0);
            rep.stat("schedules_read", 1);
            cover.hit(&format!("schedule:read:{}", rname));
            if res.len() != base_read.len() {
                rep.violation("C16", &format!("short-read/different-results/{}", rname), idx, &format!("read suite yields {} results under read chunking '{}', {} with full transfers", res.len(), rname, base_read.len()));
                continue;
            }
            for ((l, a, _), (_, b, _)) in res.iter().zip(base_read.iter()) {
                if a != b {
                    rep.violation("C16", &format!("short-read/different-results/{}", rname), idx, &format!("{} differs under read chunking '{}': {:?} vs {:?}", l, rname, a.as_ref().map(|s| s.chars().take(120).collect::<String>()), b.as_ref().map(|s| s.chars().take(120).collect::<String>())));
                    break;
                }
            }
        }

        // ---------- (b) writer: one fault at every device operation
        let kinds = [FaultKind::Other, FaultKind::Eof];
        for k in 0..total_ops {
            let op = base_ops.get(k as usize);
            let mut ks: Vec<FaultKind> = vec![kinds[(k as usize + idx as usize) % 2]];
            if a.thorough() {
                ks = kinds.to_vec();
            }
            if let Some(o) = op {
                if o.kind == OpKind::Write {
                    ks.push(FaultKind::ShortZero); // device accepts no more bytes
                }
            }
            for fk in ks {
                let d = Dev::empty();
                d.set_fault(k, fk, false);
                let run = run_scene(&scene, d.clone(), Judge::Conforming);
                rep.stat("writer_fault_runs", 1);
                let hit = d.fail_hit();
                let opk = op.map(|o| format!("{:?}", o.kind)).unwrap_or_else(|| "?".into());
                match hit {
                    None => {
                        // the run diverged before reaching op k (cannot happen for deterministic programs)
                        rep.stat("writer_fault_not_reached", 1);
                        continue;
                    }
                    Some((_, kind, call)) => {
                        let call_name = run.calls.iter().find(|c| c.no == call).map(|c| c.op.clone()).unwrap_or_else(|| if call == 0 { "(drop)".into() } else { "(add_point)".into() });
                        cover.hit(&format!("writer-fault:{:?}:{:?}:{}", kind, fk, call_name.split(' ').next().unwrap_or("?")));
                        if run.panicked {
                            rep.violation("C16", &format!("writer/panic/{:?}/{}", kind, call_name), idx, &format!("device {:?} fault ({:?}) at op {} during {}: the library panicked: {:?}", kind, fk, k, call_name, run.calls.last().and_then(|c| c.panic.clone())));
                            continue;
                        }
                        if call != 0 {
                            // the call in progress must have returned Err
                            let rec = run.calls.iter().find(|c| c.no == call);
                            let returned_err = match rec {
                                Some(c) => !c.ok,
                                None => run.stopped_on_err, // add_point calls are only recorded when they fail
                            };
                            if !returned_err {
                                rep.violation("C16", &format!("writer/error-swallowed/{:?}/{}", kind, call_name.split(' ').next().unwrap_or("?")), idx, &format!("device {} fault ({:?}) at device op {} during public call '{}' but the call returned Ok; program {:?}", opk, fk, k, call_name, calls_desc));
                            } else {
                                rep.stat("writer_calls_returned_err", 1);
                            }
                        } else {
                            rep.stat("writer_fault_in_drop_exempt", 1);
                        }
                        if run.finalized && d.bytes() != base_bytes {
                            rep.violation("C16", &format!("writer/finalize-ok-but-incomplete/{:?}", kind), idx, &format!("fault at op {} ({:?}) in call '{}': top-level finalize returned Ok but the device image differs from the complete file", k, fk, call_name));
                        }
                    }
                }
            }
        }
        // ---------- (c) the same single faults on a device that also shortens every transfer: the fault now
        // arrives after PART of a logical transfer went through (a write_all / read_exact loop in mid-flight)
        {
            let kch = *r.pick(&[1usize, 3, 7, 64, 333, 1000]);
            let wc = || Chunking::Small(kch);
            let d0 = Dev::empty();
            d0.set_chunking(wc(), wc());
            d0.set_record(true, false);
            let runc = run_scene(&scene, d0.clone(), Judge::Conforming);
            let n_ops = d0.ops_done();
            let ops_c = d0.take_ops();
            if runc.finalized && d0.bytes() == base_bytes && n_ops > 0 {
                let budget: u64 = if a.thorough() { 400 } else { 48 };
                let stride = (n_ops / budget).max(1);
                let mut k = r.u64() % stride;
                while k < n_ops {
                    let op = ops_c.get(k as usize);
                    let mut fk = kinds[(k as usize + idx as usize) % 2];
                    if let Some(o) = op {
                        if o.kind == OpKind::Write && (k / stride) % 3 == 2 {
                            fk = FaultKind::ShortZero;
                        }
                    }
                    let d = Dev::empty();
                    d.set_chunking(wc(), wc());
                    d.set_fault(k, fk, false);
                    let run = run_scene(&scene, d.clone(), Judge::Conforming);
                    rep.stat("writer_fault_runs", 1);
                    rep.stat("writer_fault_runs_mid_transfer", 1);
                    if let Some((_, kind, call)) = d.fail_hit() {
                        let call_name = run.calls.iter().find(|c| c.no == call).map(|c| c.op.clone()).unwrap_or_else(|| if call == 0 { "(drop)".into() } else { "(add_point)".into() });
                        cover.hit(&format!("writer-fault-mid-transfer:{:?}:{:?}:{}", kind, fk, call_name.split(' ').next().unwrap_or("?")));
                        if run.panicked {
                            rep.violation("C16", &format!("writer/panic/{:?}/{}", kind, call_name), idx, &format!("device {:?} fault ({:?}) at op {} (transfers of at most {} bytes) during {}: the library panicked: {:?}", kind, fk, k, kch, call_name, run.calls.last().and_then(|c| c.panic.clone())));
                        } else {
                            if call != 0 {
                                let rec = run.calls.iter().find(|c| c.no == call);
                                let returned_err = match rec {
                                    Some(c) => !c.ok,
                                    None => run.stopped_on_err,
                                };
                                if !returned_err {
                                    rep.violation("C16", &format!("writer/error-swallowed/{:?}/{}", kind, call_name.split(' ').next().unwrap_or("?")), idx, &format!("device fault ({:?}) at device op {} (transfers of at most {} bytes) during public call '{}' but the call returned Ok; program {:?}", fk, k, kch, call_name, calls_desc));
                                } else {
                                    rep.stat("writer_calls_returned_err", 1);
                                }
                            } else {
                                rep.stat("writer_fault_in_drop_exempt", 1);
                            }
                            if run.finalized && d.bytes() != base_bytes {
                                rep.violation("C16", &format!("writer/finalize-ok-but-incomplete/{:?}", kind), idx, &format!("fault at op {} ({:?}, transfers of at most {} bytes) in call '{}': top-level finalize returned Ok but the device image differs from the complete file", k, fk, kch, call_name));
                            }
                        }
                    } else {
                        rep.stat("writer_fault_not_reached", 1);
                    }
                    k += stride;
                }
            }
            // reader side
            let rd0 = Dev::new(base_bytes.clone());
            rd0.set_chunking(wc(), Chunking::Full);
            rd0.set_record(true, false);
            let base_c = read_suite(rd0.clone(), &extra, 0);
            let n_rops = rd0.ops_done();
            if base_c.len() == base_read.len() && base_c.iter().zip(base_read.iter()).all(|((_, x, _), (_, y, _))| x == y) && n_rops > 0 {
                let budget: u64 = if a.thorough() { 400 } else { 48 };
                let stride = (n_rops / budget).max(1);
                let mut k = r.u64() % stride;
                while k < n_rops {
                    let fk = kinds[(k as usize + idx as usize) % 2];
                    let d = Dev::new(base_bytes.clone());
                    d.set_chunking(wc(), Chunking::Full);
                    d.set_fault(k, fk, false);
                    let res = read_suite(d.clone(), &extra, 0);
                    rep.stat("reader_fault_runs", 1);
                    rep.stat("reader_fault_runs_mid_transfer", 1);
                    if let Some((_, kind, call)) = d.fail_hit() {
                        for (l, r0, c) in &res {
                            if let Err(e) = r0 {
                                if e.starts_with("PANIC") {
                                    rep.violation("C16", &format!("reader/panic/{:?}/{}", kind, l.trim_end_matches(char::is_numeric)), idx, &format!("device fault at read-suite op {} (reads of at most {} bytes): {} panicked: {}", k, kch, l, e));
                                }
                            }
                            if *c == call {
                                cover.hit(&format!("reader-fault-mid-transfer:{:?}:{}", kind, l.trim_end_matches(char::is_numeric)));
                                if r0.is_ok() {
                                    rep.violation("C16", &format!("reader/error-swallowed/{:?}/{}", kind, l.trim_end_matches(char::is_numeric)), idx, &format!("device {:?} fault ({:?}) at device op {} (reads of at most {} bytes) during '{}' but the operation returned Ok", kind, fk, k, kch, l));
                                } else {
                                    rep.stat("reader_calls_returned_err", 1);
                                }
                            } else if *c < call {
                                if let Some((_, b, _)) = base_read.iter().find(|(bl, _, _)| bl == l) {
                                    if r0 != b {
                                        rep.violation("C16", "reader/earlier-result-differs", idx, &format!("{} (before the fault) differs from the fault-free result", l));
                                    }
                                }
                            }
                        }
                    } else {
                        rep.stat("reader_fault_not_reached", 1);
                    }
                    k += stride;
                }
            }
        }
        // ---------- (d) a caller that ignores the failed call and carries on to the top-level finalize: whenever that
        // finalize reports success the device must hold a complete file, i.e. one that opens and whose listed
        // content is exactly what the calls that returned Ok were given (read-back oracle of C01/C04/C06)
        {
            let mut scene2 = scene.clone();
            scene2.stop_on_err = false;
            scene2.carry_on = true;
            let budget: u64 = if a.thorough() { 600 } else { 64 };
            let stride = (total_ops / budget).max(1);
            let mut k = r.u64() % stride;
            while k < total_ops {
                let fk = kinds[(k as usize + idx as usize) % 2];
                let d = Dev::empty();
                d.set_fault(k, fk, false);
                let run = run_scene(&scene2, d.clone(), Judge::Conforming);
                rep.stat("writer_fault_runs", 1);
                rep.stat("writer_fault_runs_carry_on", 1);
                if let Some((_, kind, call)) = d.fail_hit() {
                    let call_name = run.calls.iter().find(|c| c.no == call).map(|c| c.op.clone()).unwrap_or_else(|| if call == 0 { "(drop)".into() } else { "(add_point)".into() });
                    let cn = call_name.split(' ').next().unwrap_or("?").to_string();
                    if run.panicked {
                        rep.violation("C16", &format!("writer/carry-on/panic/{:?}/{}", kind, cn), idx, &format!("device fault ({:?}) at op {} during {}; the caller went on and the library panicked: {:?}", fk, k, call_name, run.calls.last().and_then(|c| c.panic.clone())));
                    } else if run.finalized {
                        cover.hit(&format!("writer-fault-carry-on:finalize-ok:{}", cn));
                        rep.stat("carry_on_finalize_ok", 1);
                        let mut stats = crate::readback::RbStats::default();
                        let mut ctx = crate::readback::Ctx { primary: "C16", hostile: false, cover: &mut cover, stats: &mut stats };
                        let vs = crate::readback::verify_readback(&d.bytes(), &scene2, &run, &mut ctx);
                        if let Some(v) = vs.first() {
                            rep.violation("C16", &format!("writer/carry-on/finalize-ok-but-file-wrong/{}/{}", cn, v.sig.split('/').take(2).collect::<Vec<_>>().join("/")), idx, &format!("device fault ({:?}) at op {} made '{}' return Err; the caller went on, top-level finalize returned Ok, but the file is not the complete file of the calls that succeeded: [{}] {} :: {} ({} findings)", fk, k, call_name, v.prop, v.sig, v.detail.chars().take(300).collect::<String>(), vs.len()));
                        } else {
                            rep.stat("carry_on_files_verified", 1);
                        }
                    } else {
                        cover.hit(&format!("writer-fault-carry-on:finalize-err:{}", cn));
                    }
                }
                k += stride;
            }
        }
        // ---------- (b) reader: one fault at every device operation of the read suite
        for k in 0..read_total_ops {
            for fk in [kinds[(k as usize + idx as usize) % 2]] {
                let d = Dev::new(base_bytes.clone());
                d.set_fault(k, fk, false);
                let res = read_suite(d.clone(), &extra, 0);
                rep.stat("reader_fault_runs", 1);
                let hit = match d.fail_hit() {
                    Some(h) => h,
                    None => {
                        rep.stat("reader_fault_not_reached", 1);
                        continue;
                    }
                };
                let (_, kind, call) = hit;
                for (l, r0, c) in &res {
                    if let Err(e) = r0 {
                        if e.starts_with("PANIC") {
                            rep.violation("C16", &format!("reader/panic/{:?}/{}", kind, l.trim_end_matches(char::is_numeric)), idx, &format!("device fault at read-suite op {}: {} panicked: {}", k, l, e));
                        }
                    }
                    if *c == call {
                        cover.hit(&format!("reader-fault:{:?}:{}", kind, l.trim_end_matches(char::is_numeric)));
                        if r0.is_ok() {
                            rep.violation("C16", &format!("reader/error-swallowed/{:?}/{}", kind, l.trim_end_matches(char::is_numeric)), idx, &format!("device {:?} fault ({:?}) at device op {} during '{}' but the operation returned Ok", kind, fk, k, l));
                        } else {
                            rep.stat("reader_calls_returned_err", 1);
                        }
                    } else if *c < call {
                        // operations completed before the fault are unaffected
                        if let Some((_, b, _)) = base_read.iter().find(|(bl, _, _)| bl == l) {
                            if r0 != b {
                                rep.violation("C16", "reader/earlier-result-differs", idx, &format!("{} (before the fault) differs from the fault-free result", l));
                            }
                        }
                    }
                }
            }
        }
        if rep.samples < rep.max_samples {
            rep.sample(J::obj().set("case", J::i(idx as i128)).set("calls", J::Arr(calls_desc.iter().take(16).map(|c| J::s(c)).collect())).set("writer_device_ops", J::i(total_ops as i128)).set("reader_device_ops", J::i(read_total_ops as i128)));
        }
        cover.hit_num("program_shape", crate::rng::hash_str(&format!("{:?}", calls_desc)) >> 8);
        rep.cover = cover;
    });
    rep.finish(done, reason);
}
