use crate::{Args, Reporter};
pub fn run(_a: &Args, _rep: &mut Reporter) {
    eprintln!("workload not built yet");
    std::process::exit(2);
}
