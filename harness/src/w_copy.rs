//! Workload "copy" (C19): copying a file through the library is lossless; writing is deterministic.

use crate::dev::Dev;
use crate::json::{fnv64, J};
use crate::obs::*;
use crate::rng::Rng;
use crate::scene::*;
use crate::{Args, Reporter};
use e57::*;
use std::io::Cursor;

pub enum CopyErr {
    NotConforming(String),
    SourceUnreadable(String),
    Failed(String),
}

fn fmt_of(b: &ImageBlob) -> ImageFormat {
    match b.format {
        ImageFormat::Png => ImageFormat::Png,
        ImageFormat::Jpeg => ImageFormat::Jpeg,
    }
}

/// read `src` with the library and write everything it reports into a new file
pub fn copy_file(src: &[u8]) -> std::result::Result<Vec<u8>, CopyErr> {
    let mut rd = E57Reader::new(Cursor::new(src.to_vec())).map_err(|e| CopyErr::SourceUnreadable(err_str(&e)))?;
    let exts = rd.extensions();
    for e in &exts {
        if !name_ok(&e.namespace) {
            return Err(CopyErr::NotConforming(format!("extension prefix {:?} is not an accepted name", e.namespace)));
        }
    }
    if rd.guid().is_empty() {
        return Err(CopyErr::NotConforming("empty file guid".into()));
    }
    let pcs = rd.pointclouds();
    for pc in &pcs {
        if let Err(why) = prototype_conforms(&pc.prototype, &exts) {
            return Err(CopyErr::NotConforming(format!("prototype: {}", why)));
        }
    }
    let imgs = rd.images();
    let dev = Dev::empty();
    let f = |e: Error| CopyErr::Failed(err_str(&e));
    let mut w = E57Writer::new(dev.clone(), rd.guid()).map_err(f)?;
    w.set_coordinate_metadata(rd.coordinate_metadata().map(|s| s.to_string()));
    w.set_creation(rd.creation());
    for e in &exts {
        w.register_extension(e.clone()).map_err(f)?;
    }
    for pc in &pcs {
        // the source must be readable to its end, otherwise there is nothing to copy
        let rr = read_raw(&mut rd, pc, usize::MAX).map_err(CopyErr::SourceUnreadable)?;
        if let End::Err(e) = &rr.end {
            return Err(CopyErr::SourceUnreadable(e.clone()));
        }
        for p in &rr.items {
            if let Err(why) = point_fits(&pc.prototype, p) {
                return Err(CopyErr::NotConforming(format!("source holds a value outside its declared range ({})", why)));
            }
        }
        let mut pw = w.add_pointcloud(pc.guid.as_deref().unwrap_or(""), pc.prototype.clone()).map_err(f)?;
        pw.set_name(pc.name.clone());
        pw.set_description(pc.description.clone());
        pw.set_original_guids(pc.original_guids.clone());
        pw.set_transform(pc.transform.clone());
        pw.set_acquisition_start(pc.acquisition_start.clone());
        pw.set_acquisition_end(pc.acquisition_end.clone());
        pw.set_sensor_vendor(pc.sensor_vendor.clone());
        pw.set_sensor_model(pc.sensor_model.clone());
        pw.set_sensor_serial(pc.sensor_serial.clone());
        pw.set_sensor_hw_version(pc.sensor_hw_version.clone());
        pw.set_sensor_sw_version(pc.sensor_sw_version.clone());
        pw.set_sensor_fw_version(pc.sensor_fw_version.clone());
        pw.set_temperature(pc.temperature);
        pw.set_humidity(pc.humidity);
        pw.set_atmospheric_pressure(pc.atmospheric_pressure);
        pw.set_intensity_limits(pc.intensity_limits.clone());
        pw.set_color_limits(pc.color_limits.clone());
        for p in rr.items {
            pw.add_point(p).map_err(f)?;
        }
        pw.finalize().map_err(f)?;
    }
    for im in &imgs {
        let mut iw = w.add_image(im.guid.as_deref().unwrap_or("")).map_err(f)?;
        if let Some(v) = &im.name {
            iw.set_name(v);
        }
        if let Some(v) = &im.description {
            iw.set_description(v);
        }
        if let Some(v) = &im.pointcloud_guid {
            iw.set_pointcloud_guid(v);
        }
        if let Some(v) = &im.transform {
            iw.set_transform(v.clone());
        }
        if let Some(v) = &im.acquisition {
            iw.set_acquisition(v.clone());
        }
        if let Some(v) = &im.sensor_vendor {
            iw.set_sensor_vendor(v);
        }
        if let Some(v) = &im.sensor_model {
            iw.set_sensor_model(v);
        }
        if let Some(v) = &im.sensor_serial {
            iw.set_sensor_serial(v);
        }
        let mut get = |b: &Blob| -> std::result::Result<Vec<u8>, CopyErr> { read_blob(&mut rd, b).map(|(_, d)| d).map_err(CopyErr::SourceUnreadable) };
        if let Some(v) = &im.visual_reference {
            let data = get(&v.blob.data)?;
            let mask = match &v.mask {
                Some(m) => Some(get(m)?),
                None => None,
            };
            let mut d: &[u8] = &data;
            let mut ms: &[u8] = mask.as_deref().unwrap_or(&[]);
            let mo: Option<&mut dyn std::io::Read> = if mask.is_some() { Some(&mut ms) } else { None };
            iw.add_visual_reference(fmt_of(&v.blob), &mut d, v.properties.clone(), mo).map_err(f)?;
        }
        match &im.projection {
            Some(Projection::Pinhole(p)) => {
                let data = get(&p.blob.data)?;
                let mask = match &p.mask {
                    Some(m) => Some(get(m)?),
                    None => None,
                };
                let mut d: &[u8] = &data;
                let mut ms: &[u8] = mask.as_deref().unwrap_or(&[]);
                let mo: Option<&mut dyn std::io::Read> = if mask.is_some() { Some(&mut ms) } else { None };
                iw.add_pinhole(fmt_of(&p.blob), &mut d, p.properties.clone(), mo).map_err(f)?;
            }
            Some(Projection::Spherical(p)) => {
                let data = get(&p.blob.data)?;
                let mask = match &p.mask {
                    Some(m) => Some(get(m)?),
                    None => None,
                };
                let mut d: &[u8] = &data;
                let mut ms: &[u8] = mask.as_deref().unwrap_or(&[]);
                let mo: Option<&mut dyn std::io::Read> = if mask.is_some() { Some(&mut ms) } else { None };
                iw.add_spherical(fmt_of(&p.blob), &mut d, p.properties.clone(), mo).map_err(f)?;
            }
            Some(Projection::Cylindrical(p)) => {
                let data = get(&p.blob.data)?;
                let mask = match &p.mask {
                    Some(m) => Some(get(m)?),
                    None => None,
                };
                let mut d: &[u8] = &data;
                let mut ms: &[u8] = mask.as_deref().unwrap_or(&[]);
                let mo: Option<&mut dyn std::io::Read> = if mask.is_some() { Some(&mut ms) } else { None };
                iw.add_cylindrical(fmt_of(&p.blob), &mut d, p.properties.clone(), mo).map_err(f)?;
            }
            None => {}
        }
        iw.finalize().map_err(f)?;
    }
    w.finalize().map_err(f)?;
    drop(w);
    Ok(dev.bytes())
}

/// canonical content of a file as read back: (label, value) lines without offsets, XML text, library version
pub fn content_log(bytes: &[u8], with_bounds: bool) -> std::result::Result<Vec<(String, String)>, String> {
    let mut rd = E57Reader::new(Cursor::new(bytes.to_vec())).map_err(|e| err_str(&e))?;
    let mut v: Vec<(String, String)> = Vec::new();
    v.push(("root.guid".into(), format!("{:?}", rd.guid())));
    v.push(("root.format".into(), format!("{:?}", rd.format_name())));
    v.push(("root.coord".into(), format!("{:?}", rd.coordinate_metadata())));
    v.push(("root.creation".into(), datetime_str(&rd.creation())));
    let mut e: Vec<String> = rd.extensions().iter().map(|e| format!("{}={}", e.namespace, e.url)).collect();
    e.sort();
    v.push(("root.extensions".into(), format!("{:?}", e)));
    let pcs = rd.pointclouds();
    v.push(("pc.count".into(), pcs.len().to_string()));
    for (i, pc) in pcs.iter().enumerate() {
        for (k, val) in pc_fields(pc, false) {
            if !with_bounds && k.ends_with("_bounds") {
                continue;
            }
            // partial limits are documented to be dropped by the writer: compared only when complete
            if k == "intensity_limits" {
                if let Some(l) = &pc.intensity_limits {
                    if l.intensity_min.is_none() || l.intensity_max.is_none() {
                        continue;
                    }
                }
            }
            if k == "color_limits" {
                if let Some(l) = &pc.color_limits {
                    if l.red_min.is_none() || l.red_max.is_none() || l.green_min.is_none() || l.green_max.is_none() || l.blue_min.is_none() || l.blue_max.is_none() {
                        continue;
                    }
                }
            }
            v.push((format!("pc{}.{}", i, k), val));
        }
        let rr = read_raw(&mut rd, pc, usize::MAX)?;
        let mut h: u64 = 0xcbf29ce484222325;
        for p in &rr.items {
            h = h.wrapping_mul(0x100000001b3) ^ fnv64(raw_str(p).as_bytes());
        }
        v.push((format!("pc{}.points", i), format!("{} items end={} digest={:016x}", rr.items.len(), rr.end.render(), h)));
    }
    let imgs = rd.images();
    v.push(("img.count".into(), imgs.len().to_string()));
    for (i, im) in imgs.iter().enumerate() {
        for (k, val) in img_fields(im, false) {
            v.push((format!("img{}.{}", i, k), val));
        }
        for (role, b) in img_blobs(im) {
            let r = read_blob(&mut rd, &b).map(|(n, d)| format!("{}:{:016x}", n, fnv64(&d)));
            v.push((format!("img{}.blob.{}", i, role), format!("{:?}", r)));
        }
    }
    Ok(v)
}

fn first_diff(a: &[(String, String)], b: &[(String, String)]) -> Option<(String, String, String)> {
    for (x, y) in a.iter().zip(b.iter()) {
        if x != y {
            return Some((x.0.clone(), x.1.chars().take(200).collect(), y.1.chars().take(200).collect()));
        }
    }
    if a.len() != b.len() {
        return Some(("line-count".into(), a.len().to_string(), b.len().to_string()));
    }
    None
}

/// drop empty-vs-absent differences the writer documents / cannot express: a missing guid becomes ""
fn normalise(v: Vec<(String, String)>) -> Vec<(String, String)> {
    // add_pointcloud/add_image take the GUID as &str: "no GUID" cannot be expressed through the API,
    // so an absent GUID (not conforming to the standard anyway) and an empty one are the same content
    v.into_iter().map(|(k, val)| if k.ends_with(".guid") && val == "-" { (k, "\"\"".to_string()) } else { (k, val) }).collect()
}

pub fn run(a: &Args, rep: &mut Reporter) {
    let ext_files: Vec<String> = match a.get("filelist") {
        Some(p) => std::fs::read_to_string(p).map(|s| s.lines().map(|l| l.to_string()).filter(|l| !l.is_empty()).collect()).unwrap_or_default(),
        None => Vec::new(),
    };
    let testdata: Vec<String> = ["tinyCartesianFloatRgb.e57", "tiny_pc_and_images.e57", "tiny_pc_with_extension.e57", "tiny_spherical.e57", "empty.e57", "empty_pc.e57", "original_guids.e57", "integer_intensity.e57", "scaled_integer_intensity.e57", "float_intensity_without_min_max.e57", "no_ext_namespace.e57", "las2e57_no_images_tag.e57", "bunnyInt19.e57", "bunnyFloat.e57", "bunnyDouble.e57", "bunnyInt32.e57", "bunnyInt21.e57", "bunnyInt24.e57"].iter().map(|s| format!("/repo/testdata/{}", s)).collect();
    let mut digest_files: u64 = 0;
    let n_fixed = (testdata.len() + ext_files.len()) as u64;
    let (done, reason) = crate::run_cases(a, rep, |idx, cs, rep| {
        let mut r = Rng::new(cs);
        let mut cover = std::mem::take(&mut rep.cover);
        // source file
        let (label, src, own_writer): (String, Vec<u8>, bool) = if (idx as usize) < testdata.len() {
            match std::fs::read(&testdata[idx as usize]) {
                Ok(b) => (testdata[idx as usize].rsplit('/').next().unwrap_or("?").to_string(), b, false),
                Err(_) => {
                    rep.cover = cover;
                    return;
                }
            }
        } else if idx < n_fixed {
            let p = &ext_files[idx as usize - testdata.len()];
            match std::fs::read(p) {
                Ok(b) => (format!("encoder:{}", p.rsplit('/').next().unwrap_or("?")), b, false),
                Err(_) => {
                    rep.cover = cover;
                    return;
                }
            }
        } else {
            let mut k = Knobs::base();
            k.max_items = 4;
            k.big_points = r.chance(1, 10);
            if idx % 40 == 7 {
                k.full_packets = true;
                k.max_records = 1 + ((idx / 40) % 6) as usize;
                k.max_items = 2;
            }
            k.meta_heavy = r.chance(1, 3);
            k.wild_strings = k.meta_heavy;
            if idx % 3 == 0 {
                k.width_focus = Some(((idx / 3) % 65) as usize);
            }
            let scene = gen_scene(&mut r, &k, &mut cover);
            let d1 = Dev::empty();
            let run1 = run_scene(&scene, d1.clone(), Judge::Conforming);
            if !run1.finalized {
                rep.stat("program_not_finalized", 1);
                rep.cover = cover;
                return;
            }
            // determinism: the same program a second time on a fresh device
            let d2 = Dev::empty();
            let mut scene2 = scene.clone();
            scene2.src_salt = 1 + (idx % 4) as u8;
            let _ = run_scene(&scene2, d2.clone(), Judge::Conforming);
            rep.stat("determinism_pairs", 1);
            if d1.bytes() != d2.bytes() {
                let (b1, b2) = (d1.bytes(), d2.bytes());
                let first = b1.iter().zip(b2.iter()).position(|(x, y)| x != y).unwrap_or(b1.len().min(b2.len()));
                rep.violation("C19", "nondeterministic-bytes/same-process", idx, &format!("the same writer program produced different files (sizes {} / {}, first difference at byte {})", b1.len(), b2.len(), first));
            }
            digest_files = digest_files.wrapping_add(fnv64(&d1.bytes()) & 0xFFFF_FFFF_FFFF);
            (format!("program:{}", idx), d1.bytes(), true)
        };
        rep.stat("sources", 1);
        let orig = match guarded(|| content_log(&src, own_writer)) {
            Ok(Ok(v)) => normalise(v),
            Ok(Err(_)) => {
                rep.stat("source_unreadable", 1);
                rep.cover = cover;
                return;
            }
            Err(p) => {
                rep.violation("C08", &format!("panic/content-log/{}", panic_sig(&p)), idx, &p);
                rep.cover = cover;
                return;
            }
        };
        let c1 = match guarded(|| copy_file(&src)) {
            Err(p) => {
                rep.violation("C19", &format!("copy-panic/{}", panic_sig(&p)), idx, &format!("{}: {}", label, p));
                rep.cover = cover;
                return;
            }
            Ok(Err(CopyErr::NotConforming(why))) => {
                rep.stat("skipped_not_rule_conforming", 1);
                cover.hit(&format!("skipped:{}", class_of(&why).chars().take(50).collect::<String>()));
                rep.cover = cover;
                return;
            }
            Ok(Err(CopyErr::SourceUnreadable(_))) => {
                rep.stat("source_unreadable", 1);
                rep.cover = cover;
                return;
            }
            Ok(Err(CopyErr::Failed(e))) => {
                rep.violation("C19", &format!("copy-failed/{}", class_of(&e)), idx, &format!("{}: copying a readable, rule-conforming file failed: {}", label, e));
                rep.cover = cover;
                return;
            }
            Ok(Ok(b)) => b,
        };
        rep.stat("files_copied", 1);
        digest_files = digest_files.wrapping_add(fnv64(&c1) & 0xFFFF_FFFF_FFFF);
        cover.hit(if own_writer { "source:writer" } else if label.starts_with("encoder:") { "source:independent-encoder" } else { "source:testdata" });
        match content_log(&c1, own_writer) {
            Err(e) => rep.violation("C19", &format!("copy-unreadable/{}", class_of(&e)), idx, &format!("{}: the copy cannot be read back: {}", label, e)),
            Ok(l1) => {
                let l1 = normalise(l1);
                if let Some((k, a1, b1)) = first_diff(&orig, &l1) {
                    let kk: String = k.chars().filter(|c| !c.is_ascii_digit()).collect();
                    rep.violation("C19", &format!("copy-differs/{}", kk), idx, &format!("{}: {} original {} copy {}", label, k, a1, b1));
                }
                // second generation, bounds included (both written by this writer)
                match guarded(|| copy_file(&c1)) {
                    Ok(Ok(c2)) => {
                        rep.stat("generations_compared", 1);
                        let g1 = content_log(&c1, true);
                        let g2 = content_log(&c2, true);
                        match (g1, g2) {
                            (Ok(g1), Ok(g2)) => {
                                if let Some((k, a1, b1)) = first_diff(&g1, &g2) {
                                    let kk: String = k.chars().filter(|c| !c.is_ascii_digit()).collect();
                                    rep.violation("C19", &format!("second-generation-differs/{}", kk), idx, &format!("{}: {} first copy {} second copy {}", label, k, a1, b1));
                                }
                                if c1 != c2 {
                                    rep.stat("second_generation_bytes_differ", 1);
                                } else {
                                    rep.stat("second_generation_byte_identical", 1);
                                }
                            }
                            _ => rep.violation("C19", "second-generation-unreadable", idx, &label),
                        }
                    }
                    Ok(Err(CopyErr::Failed(e))) => rep.violation("C19", &format!("second-copy-failed/{}", class_of(&e)), idx, &format!("{}: {}", label, e)),
                    Ok(Err(_)) => rep.violation("C19", "second-copy-rejected", idx, &format!("{}: the first copy is not accepted as a source", label)),
                    Err(p) => rep.violation("C19", &format!("copy-panic/{}", panic_sig(&p)), idx, &p),
                }
                // determinism of the copy itself
                if let Ok(Ok(c1b)) = guarded(|| copy_file(&src)) {
                    rep.stat("determinism_pairs", 1);
                    if c1b != c1 {
                        rep.violation("C19", "nondeterministic-bytes/copy", idx, &format!("{}: copying the same file twice produced different bytes", label));
                    }
                }
                // prototypes with defaulted ranges
                if l1.iter().any(|(k, v)| k.ends_with(".prototype") && v.contains("-9223372036854775808,9223372036854775807")) {
                    cover.hit("prototype:full-i64-range");
                }
            }
        }
        cover.hit_num("source_identity", fnv64(&src) >> 8);
        if rep.samples < rep.max_samples {
            rep.sample(J::obj().set("case", J::i(idx as i128)).set("source", J::s(&label)).set("source_bytes", J::u(src.len())).set("copy_bytes", J::u(c1.len())).set("content_lines", J::u(orig.len())));
        }
        rep.cover = cover;
    });
    rep.stat("digest_files_sum48", digest_files & 0xFFFF_FFFF_FFFF);
    rep.finish(done, reason);
}
