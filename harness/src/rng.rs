//! SplitMix64 seeded xoshiro256** generator. No external crates.

#[derive(Clone)]
pub struct Rng {
    s: [u64; 4],
}

pub fn splitmix(x: &mut u64) -> u64 {
    *x = x.wrapping_add(0x9E3779B97F4A7C15);
    let mut z = *x;
    z = (z ^ (z >> 30)).wrapping_mul(0xBF58476D1CE4E5B9);
    z = (z ^ (z >> 27)).wrapping_mul(0x94D049BB133111EB);
    z ^ (z >> 31)
}

/// Mix several integers into one seed (used for case seeds = hash(root, property, shard, index)).
pub fn mix(parts: &[u64]) -> u64 {
    let mut h = 0x243F6A8885A308D3u64;
    for p in parts {
        h ^= *p;
        let mut t = h;
        h = splitmix(&mut t);
    }
    h
}

pub fn hash_str(s: &str) -> u64 {
    let mut h = 0xcbf29ce484222325u64;
    for b in s.bytes() {
        h ^= b as u64;
        h = h.wrapping_mul(0x100000001b3);
    }
    h
}

impl Rng {
    pub fn new(seed: u64) -> Self {
        let mut x = seed;
        let s = [splitmix(&mut x), splitmix(&mut x), splitmix(&mut x), splitmix(&mut x)];
        Rng { s }
    }
    pub fn u64(&mut self) -> u64 {
        let r = self.s[1].wrapping_mul(5).rotate_left(7).wrapping_mul(9);
        let t = self.s[1] << 17;
        self.s[2] ^= self.s[0];
        self.s[3] ^= self.s[1];
        self.s[1] ^= self.s[2];
        self.s[0] ^= self.s[3];
        self.s[2] ^= t;
        self.s[3] = self.s[3].rotate_left(45);
        r
    }
    /// uniform in 0..n (n>0)
    pub fn below(&mut self, n: u64) -> u64 {
        if n <= 1 {
            return 0;
        }
        // multiply-shift; bias irrelevant for testing purposes
        ((self.u64() as u128 * n as u128) >> 64) as u64
    }
    pub fn usize(&mut self, n: usize) -> usize {
        self.below(n as u64) as usize
    }
    /// inclusive range
    pub fn range(&mut self, lo: i64, hi: i64) -> i64 {
        let span = (hi as i128 - lo as i128 + 1) as u128;
        if span > u64::MAX as u128 {
            return self.u64() as i64;
        }
        (lo as i128 + ((self.u64() as u128 * span) >> 64) as i128) as i64
    }
    pub fn chance(&mut self, num: u64, den: u64) -> bool {
        self.below(den) < num
    }
    pub fn bool(&mut self) -> bool {
        self.u64() & 1 == 1
    }
    pub fn pick<'a, T>(&mut self, xs: &'a [T]) -> &'a T {
        &xs[self.usize(xs.len())]
    }
    pub fn f64_unit(&mut self) -> f64 {
        (self.u64() >> 11) as f64 / (1u64 << 53) as f64
    }
    pub fn bytes(&mut self, n: usize) -> Vec<u8> {
        let mut v = Vec::with_capacity(n);
        while v.len() < n {
            let x = self.u64().to_le_bytes();
            let take = (n - v.len()).min(8);
            v.extend_from_slice(&x[..take]);
        }
        v
    }
    pub fn shuffle<T>(&mut self, xs: &mut [T]) {
        for i in (1..xs.len()).rev() {
            let j = self.usize(i + 1);
            xs.swap(i, j);
        }
    }
}
