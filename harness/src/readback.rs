//! Read-back oracle: intent (accepted model) vs. what a fresh reader reports.
//! Files violations under C01 (raw points / prototype / counts), C04 (metadata),
//! C06 (blob bytes), C14 (bounds and limits); in hostile mode everything is C10.

use crate::json::{fnv64, J};
use crate::obs::*;
use crate::scene::*;
use e57::*;
use std::io::Cursor;

#[derive(Default, Clone)]
pub struct RbStats {
    pub opened: u64,
    pub pcs: u64,
    pub points: u64,
    pub values: u64,
    pub fields: u64,
    pub blobs: u64,
    pub blob_bytes: u64,
    pub imgs: u64,
    pub bounds_checked: u64,
    pub limits_checked: u64,
}

pub fn model_f64(v: &RecordValue, d: &RecordDataType) -> f64 {
    match (v, d) {
        (RecordValue::Single(s), _) => *s as f64,
        (RecordValue::Double(x), _) => *x,
        (RecordValue::ScaledInteger(i), RecordDataType::ScaledInteger { scale, offset, .. }) => *i as f64 * *scale + *offset,
        (RecordValue::ScaledInteger(i), _) => *i as f64,
        (RecordValue::Integer(i), _) => *i as f64,
    }
}

fn fold_f64(points: &[RawValues], idx: usize, d: &RecordDataType) -> Option<Option<(f64, f64)>> {
    // None: axis has NaN (not judged). Some(None): no points. Some(Some(min,max)).
    let mut acc: Option<(f64, f64)> = None;
    for p in points {
        let v = model_f64(&p[idx], d);
        if v.is_nan() {
            return None;
        }
        acc = Some(match acc {
            None => (v, v),
            Some((a, b)) => (if v < a { v } else { a }, if v > b { v } else { b }),
        });
    }
    Some(acc)
}

fn fold_i64(points: &[RawValues], idx: usize) -> Option<(i64, i64)> {
    let mut acc: Option<(i64, i64)> = None;
    for p in points {
        if let RecordValue::Integer(v) = p[idx] {
            acc = Some(match acc {
                None => (v, v),
                Some((a, b)) => (a.min(v), b.max(v)),
            });
        }
    }
    acc
}

fn type_limits(d: &RecordDataType) -> (Option<RecordValue>, Option<RecordValue>) {
    match d {
        RecordDataType::Single { min, max } => (min.map(RecordValue::Single), max.map(RecordValue::Single)),
        RecordDataType::Double { min, max } => (min.map(RecordValue::Double), max.map(RecordValue::Double)),
        RecordDataType::ScaledInteger { min, max, .. } => (Some(RecordValue::ScaledInteger(*min)), Some(RecordValue::ScaledInteger(*max))),
        RecordDataType::Integer { min, max } => (Some(RecordValue::Integer(*min)), Some(RecordValue::Integer(*max))),
    }
}

pub fn expected_intensity_limits(proto: &[Record], ov: &Option<Option<IntensityLimits>>) -> Option<IntensityLimits> {
    let l = match ov {
        Some(x) => x.clone(),
        None => proto.iter().find(|r| r.name == RecordName::Intensity).map(|r| {
            let (a, b) = type_limits(&r.data_type);
            IntensityLimits { intensity_min: a, intensity_max: b }
        }),
    };
    match l {
        Some(l) if l.intensity_min.is_some() && l.intensity_max.is_some() => Some(l),
        _ => None, // partial limits are documented to be omitted
    }
}

pub fn expected_color_limits(proto: &[Record], ov: &Option<Option<ColorLimits>>) -> Option<ColorLimits> {
    let l = match ov {
        Some(x) => x.clone(),
        None => {
            let f = |n: RecordName| proto.iter().find(|r| r.name == n).map(|r| type_limits(&r.data_type));
            match (f(RecordName::ColorRed), f(RecordName::ColorGreen), f(RecordName::ColorBlue)) {
                (Some(r), Some(g), Some(b)) => Some(ColorLimits { red_min: r.0, red_max: r.1, green_min: g.0, green_max: g.1, blue_min: b.0, blue_max: b.1 }),
                _ => None,
            }
        }
    };
    match l {
        Some(l) if l.red_min.is_some() && l.red_max.is_some() && l.green_min.is_some() && l.green_max.is_some() && l.blue_min.is_some() && l.blue_max.is_some() => Some(l),
        _ => None,
    }
}

fn feq(a: &Option<f64>, b: &Option<f64>) -> bool {
    match (a, b) {
        (Some(x), Some(y)) => x == y || (x.is_nan() && y.is_nan()),
        (None, None) => true,
        _ => false,
    }
}

pub struct Ctx<'a> {
    pub primary: &'static str, // property the running check decides
    pub hostile: bool,
    pub cover: &'a mut crate::Cover,
    pub stats: &'a mut RbStats,
}

impl<'a> Ctx<'a> {
    fn p(&self, natural: &'static str) -> &'static str {
        if self.hostile {
            "C10"
        } else {
            natural
        }
    }
}

pub fn scene_hints(scene: &Scene, run: &RunResult) -> String {
    let mut h = Vec::new();
    let mut strings: Vec<&String> = Vec::new();
    strings.push(&scene.guid);
    if let Some(Some(c)) = &scene.coord {
        strings.push(c);
    }
    for pc in &run.pcs {
        strings.push(&pc.guid);
        let m = &pc.meta;
        for s in [&m.name, &m.description, &m.sensor_vendor, &m.sensor_model, &m.sensor_serial, &m.sensor_hw, &m.sensor_sw, &m.sensor_fw].into_iter().flatten() {
            strings.push(s);
        }
        if let Some(g) = &m.original_guids {
            for s in g {
                strings.push(s);
            }
        }
    }
    for im in &run.imgs {
        strings.push(&im.spec.guid);
        let m = &im.spec.meta;
        for s in [&m.name, &m.description, &m.pointcloud_guid, &m.sensor_vendor, &m.sensor_model, &m.sensor_serial].into_iter().flatten() {
            strings.push(s);
        }
        if matches!(im.spec.proj, Some((ProjKind::Cylindrical, _))) {
            h.push("cylindrical-image");
        }
    }
    if strings.iter().any(|s| s.contains("]]>")) {
        h.push("string-with-cdata-end");
    }
    for e in &run.exts {
        if !name_ok(&e.namespace) {
            h.push("ext-ns-not-xml-name");
        }
        if e.url.contains(['&', '<', '"']) {
            h.push("ext-url-markup");
        }
    }
    for pc in &run.pcs {
        for r in &pc.prototype {
            if let RecordName::Unknown { name, .. } = &r.name {
                if !name_ok(name) {
                    h.push("ext-attr-not-xml-name");
                }
            }
        }
    }
    h.sort();
    h.dedup();
    if h.is_empty() {
        "none".into()
    } else {
        h.join("+")
    }
}

/// Compare a fresh reader's view of `bytes` with the accepted model of `run`.
pub fn verify_readback(bytes: &[u8], scene: &Scene, run: &RunResult, ctx: &mut Ctx) -> Vec<Viol> {
    let mut v: Vec<Viol> = Vec::new();
    let opened = guarded(|| E57Reader::new(Cursor::new(bytes.to_vec())));
    let mut rd = match opened {
        Ok(Ok(r)) => r,
        Ok(Err(e)) => {
            v.push(viol(
                ctx.primary,
                format!("open-failed/{}/hint={}", err_class(&e), scene_hints(scene, run)),
                format!("all writer calls succeeded but the file does not open: {}", err_str(&e)),
            ));
            return v;
        }
        Err(p) => {
            v.push(viol("C08", format!("panic/E57Reader::new/{}", panic_sig(&p)), p));
            return v;
        }
    };
    ctx.stats.opened += 1;

    // ---------------- root metadata (C04)
    let c04 = ctx.p("C04");
    let field = |name: &str, exp: String, got: String, v: &mut Vec<Viol>, stats: &mut RbStats, prop: &'static str| {
        stats.fields += 1;
        if exp != got {
            v.push(viol(prop, format!("field/{}", name), format!("{}: expected {} got {}", name, trunc(&exp), trunc(&got))));
        }
    };
    field("root.guid", scene.guid.clone(), rd.guid().to_string(), &mut v, ctx.stats, c04);
    field("root.format_name", "ASTM E57 3D Imaging Data File".into(), rd.format_name().to_string(), &mut v, ctx.stats, c04);
    let exp_coord = scene.coord.clone().flatten();
    field("root.coordinate_metadata", format!("{:?}", exp_coord), format!("{:?}", rd.coordinate_metadata().map(|s| s.to_string())), &mut v, ctx.stats, c04);
    let exp_creation = scene.creation.clone().flatten();
    field("root.creation", datetime_str(&exp_creation), datetime_str(&rd.creation()), &mut v, ctx.stats, c04);
    {
        let mut e1: Vec<String> = run.exts.iter().map(|e| format!("{}={}", e.namespace, e.url)).collect();
        let mut e2: Vec<String> = rd.extensions().iter().map(|e| format!("{}={}", e.namespace, e.url)).collect();
        e1.sort();
        e2.sort();
        field("root.extensions", format!("{:?}", e1), format!("{:?}", e2), &mut v, ctx.stats, c04);
    }
    if rd.library_version().is_none() {
        v.push(viol(c04, "field/root.library_version".into(), "library version missing".into()));
    }
    if let Some(x) = &run.xml_written {
        field("xml()", format!("{:016x}/{}", fnv64(x.as_bytes()), x.len()), format!("{:016x}/{}", fnv64(rd.xml().as_bytes()), rd.xml().len()), &mut v, ctx.stats, c04);
        match guarded(|| E57Reader::raw_xml(Cursor::new(bytes.to_vec()))) {
            Ok(Ok(raw)) => field("raw_xml()", format!("{:016x}/{}", fnv64(x.as_bytes()), x.len()), format!("{:016x}/{}", fnv64(&raw), raw.len()), &mut v, ctx.stats, c04),
            Ok(Err(e)) => v.push(viol(c04, "raw_xml/error".into(), err_str(&e))),
            Err(p) => v.push(viol("C08", format!("panic/raw_xml/{}", panic_sig(&p)), p)),
        }
    } else {
        match guarded(|| E57Reader::raw_xml(Cursor::new(bytes.to_vec()))) {
            Ok(Ok(raw)) => {
                if raw != rd.xml().as_bytes() {
                    v.push(viol(c04, "raw_xml/differs-from-xml()".into(), "raw_xml() and xml() differ".into()));
                }
            }
            Ok(Err(e)) => v.push(viol(c04, "raw_xml/error".into(), err_str(&e))),
            Err(p) => v.push(viol("C08", format!("panic/raw_xml/{}", panic_sig(&p)), p)),
        }
    }
    // header must describe the file (cheap sanity; the independent decoder does the real check in C02)
    let h = rd.header();
    if h.phys_length != bytes.len() as u64 {
        v.push(viol(ctx.p("C02"), "header/phys_length".into(), format!("header says {} file has {}", h.phys_length, bytes.len())));
    }

    // ---------------- point clouds
    let pcs = rd.pointclouds();
    if pcs.len() != run.pcs.len() {
        v.push(viol(ctx.p("C01"), "pc-count".into(), format!("expected {} point clouds, reader lists {}", run.pcs.len(), pcs.len())));
    }
    for (i, (exp, got)) in run.pcs.iter().zip(pcs.iter()).enumerate() {
        if exp.tainted {
            continue;
        }
        ctx.stats.pcs += 1;
        let c01 = ctx.p("C01");
        let c14 = ctx.p("C14");
        // C01 part of the descriptor
        if proto_str(&exp.prototype) != proto_str(&got.prototype) {
            v.push(viol(c01, "prototype".into(), format!("pc{} prototype expected {} got {}", i, proto_str(&exp.prototype), proto_str(&got.prototype))));
            if ctx.primary == "C04" {
                // the declared data types (minimum/maximum/scale/offset) are metadata as well
                let first = exp.prototype.iter().zip(got.prototype.iter()).find(|(a, b)| rec_str(a) != rec_str(b));
                v.push(viol("C04", "field/pc.prototype".into(), format!("pc{} prototype record expected {:?} got {:?}", i, first.map(|f| rec_str(f.0)), first.map(|f| rec_str(f.1)))));
            }
        }
        if got.records != exp.points.len() as u64 {
            v.push(viol(c01, "record-count".into(), format!("pc{} expected {} records, descriptor says {}", i, exp.points.len(), got.records)));
        }
        // C04 part
        let m = &exp.meta;
        let mut e = PointCloud::default();
        e.guid = Some(exp.guid.clone());
        e.name = m.name.clone();
        e.description = m.description.clone();
        e.original_guids = m.original_guids.clone();
        e.transform = m.transform.clone();
        e.acquisition_start = m.acq_start.clone();
        e.acquisition_end = m.acq_end.clone();
        e.sensor_vendor = m.sensor_vendor.clone();
        e.sensor_model = m.sensor_model.clone();
        e.sensor_serial = m.sensor_serial.clone();
        e.sensor_hw_version = m.sensor_hw.clone();
        e.sensor_sw_version = m.sensor_sw.clone();
        e.sensor_fw_version = m.sensor_fw.clone();
        e.temperature = m.temperature;
        e.humidity = m.humidity;
        e.atmospheric_pressure = m.pressure;
        let ef = pc_fields(&e, false);
        let gf = pc_fields(got, false);
        for ((k, a), (_, b)) in ef.iter().zip(gf.iter()) {
            if matches!(*k, "records" | "prototype" | "cartesian_bounds" | "spherical_bounds" | "index_bounds" | "intensity_limits" | "color_limits") {
                continue;
            }
            ctx.stats.fields += 1;
            ctx.cover.hit(&format!("field:pc.{}:{}", k, if a == "-" { "absent" } else { "present" }));
            if a != b {
                v.push(viol(c04, format!("field/pc.{}", k), format!("pc{}.{}: expected {} got {}", i, k, trunc(a), trunc(b))));
            }
        }
        // C14: limits
        ctx.stats.limits_checked += 1;
        let eil = expected_intensity_limits(&exp.prototype, &m.intensity_limits);
        if ilimits_str(&eil) != ilimits_str(&got.intensity_limits) {
            let class = match &m.intensity_limits {
                None => "default",
                Some(None) => "override-none",
                Some(Some(l)) if l.intensity_min.is_some() && l.intensity_max.is_some() => "override-complete",
                _ => "override-partial",
            };
            v.push(viol(c14, format!("limits/intensity/{}", class), format!("pc{} intensity limits expected {} got {}", i, ilimits_str(&eil), ilimits_str(&got.intensity_limits))));
            if ctx.primary == "C04" && m.intensity_limits.is_some() {
                // limits the caller set (or removed) are metadata like any other field
                v.push(viol("C04", format!("field/pc.intensity_limits/{}", class), format!("pc{} intensity limits set by the caller: expected {} got {}", i, ilimits_str(&eil), ilimits_str(&got.intensity_limits))));
            }
        }
        let ecl = expected_color_limits(&exp.prototype, &m.color_limits);
        if climits_str(&ecl) != climits_str(&got.color_limits) {
            let class = match &m.color_limits {
                None => "default",
                Some(None) => "override-none",
                _ => "override",
            };
            v.push(viol(c14, format!("limits/color/{}", class), format!("pc{} color limits expected {} got {}", i, climits_str(&ecl), climits_str(&got.color_limits))));
            if ctx.primary == "C04" && m.color_limits.is_some() {
                v.push(viol("C04", format!("field/pc.color_limits/{}", class), format!("pc{} color limits set by the caller: expected {} got {}", i, climits_str(&ecl), climits_str(&got.color_limits))));
            }
        }
        // C14: bounds
        check_bounds(i, exp, got, c14, &mut v, ctx);

        // C01: raw points
        let rr = guarded(|| read_raw(&mut rd, got, exp.points.len() + 3));
        match rr {
            Err(p) => {
                v.push(viol("C08", format!("panic/raw-iterator/{}", panic_sig(&p)), p));
                return v;
            }
            Ok(Err(e)) => v.push(viol(c01, format!("raw-open-error/{}", class_of(&e)), format!("pc{}: {}", i, e))),
            Ok(Ok(rr)) => {
                match &rr.end {
                    End::Done => {}
                    End::Err(e) => v.push(viol(c01, format!("raw-error/{}", class_of(e)), format!("pc{} after {} of {} points: {}", i, rr.items.len(), exp.points.len(), e))),
                    End::Cap => v.push(viol(c01, "raw-extra-items".into(), format!("pc{} yields more than {} points", i, exp.points.len()))),
                }
                if rr.end == End::Done && rr.items.len() != exp.points.len() {
                    v.push(viol(c01, "raw-item-count".into(), format!("pc{} expected {} points, iterator yielded {}", i, exp.points.len(), rr.items.len())));
                }
                let mut reported = false;
                for (pi, (a, b)) in exp.points.iter().zip(rr.items.iter()).enumerate() {
                    ctx.stats.points += 1;
                    if a.len() != b.len() {
                        v.push(viol(c01, "raw-arity".into(), format!("pc{} point {} arity {} vs {}", i, pi, a.len(), b.len())));
                        break;
                    }
                    for (ri, (x, y)) in a.iter().zip(b.iter()).enumerate() {
                        ctx.stats.values += 1;
                        if !val_eq(x, y) && !reported {
                            reported = true;
                            let d = &exp.prototype[ri].data_type;
                            let tclass = match d {
                                RecordDataType::Single { .. } => "single".to_string(),
                                RecordDataType::Double { .. } => "double".to_string(),
                                RecordDataType::ScaledInteger { .. } => format!("scaled/w{}", dt_bits(d)),
                                RecordDataType::Integer { .. } => format!("integer/w{}", dt_bits(d)),
                            };
                            v.push(viol(
                                c01,
                                format!("raw-value/{}", tclass),
                                format!("pc{} point {} record {} ({}): written {} read {}", i, pi, ri, rec_str(&exp.prototype[ri]), val_str(x), val_str(y)),
                            ));
                        }
                    }
                }
                // every read-back point lies within read-back bounds (C14)
                check_within(i, got, &rr.items, c14, &mut v);
            }
        }
    }

    // ---------------- images
    let imgs = rd.images();
    if imgs.len() != run.imgs.len() {
        v.push(viol(c04, "image-count".into(), format!("expected {} images, reader lists {}", run.imgs.len(), imgs.len())));
    }
    for (i, (exp, got)) in run.imgs.iter().zip(imgs.iter()).enumerate() {
        ctx.stats.imgs += 1;
        check_image(i, &exp.spec, got, &mut rd, &mut v, ctx);
    }
    // ---------------- standalone blobs
    let c06 = ctx.p("C06");
    for (bi, (b, data)) in run.blobs.iter().enumerate() {
        ctx.stats.blobs += 1;
        ctx.stats.blob_bytes += data.len() as u64;
        ctx.cover.hit(&format!("bloblen_mod4:{}", data.len() % 4));
        ctx.cover.hit_num("bloblen_mod1020", (data.len() % 1020) as u64);
        ctx.cover.hit_num("blobpos_mod1020", crate::crc::phys_to_log(b.offset) % 1020);
        check_blob(&format!("blob{}", bi), b, data, &mut rd, c06, &mut v);
        if !data.is_empty() && ctx.primary == "C06" {
            // rooms: nothing, all but the last byte, a little, somewhere in the middle
            let rooms = [0usize, data.len() - 1, 100.min(data.len() - 1), data.len() / 2, (data.len() * 3 / 4).min(data.len() - 1)];
            let room = rooms[(bi + data.len()) % rooms.len()];
            ctx.cover.hit(&format!("failing-sink:{}", ["room-0", "all-but-one", "small", "half", "three-quarters"][(bi + data.len()) % rooms.len()]));
            check_blob_failing_sink(&format!("blob{}", bi), b, data, room, &mut rd, c06, &mut v);
            // and the reader is as good as before
            check_blob(&format!("blob{} (after a failing writer)", bi), b, data, &mut rd, c06, &mut v);
        }
    }
    v
}

fn trunc(s: &str) -> String {
    if s.len() > 300 {
        let mut e = 300;
        while !s.is_char_boundary(e) {
            e -= 1;
        }
        format!("{}…(len {})", &s[..e], s.len())
    } else {
        s.to_string()
    }
}

/// sink that accepts `room` bytes and then fails
pub struct FailingSink {
    pub room: usize,
    pub got: Vec<u8>,
    pub failed: bool,
}
impl std::io::Write for FailingSink {
    fn write(&mut self, b: &[u8]) -> std::io::Result<usize> {
        if self.got.len() >= self.room {
            self.failed = true;
            return Err(std::io::Error::new(std::io::ErrorKind::Other, "sink is full"));
        }
        let n = b.len().min(self.room - self.got.len());
        self.got.extend_from_slice(&b[..n]);
        Ok(n)
    }
    fn flush(&mut self) -> std::io::Result<()> {
        Ok(())
    }
}

/// Ok(n) from blob() is a statement about what the caller's writer received: with a writer that stops
/// accepting bytes before the end, Ok is only right if all n bytes did arrive.
pub fn check_blob_failing_sink<T: std::io::Read + std::io::Seek>(label: &str, b: &Blob, data: &[u8], room: usize, rd: &mut E57Reader<T>, prop: &'static str, v: &mut Vec<Viol>) {
    let mut sink = FailingSink { room, got: Vec::new(), failed: false };
    match guarded(|| rd.blob(b, &mut sink)) {
        Err(p) => v.push(viol("C08", format!("panic/blob/{}", panic_sig(&p)), p)),
        Ok(Err(_)) => {}
        Ok(Ok(n)) => {
            if sink.got.len() as u64 != n || sink.got != data {
                v.push(viol(prop, "blob/ok-but-writer-incomplete".into(), format!("{} ({} bytes): blob() returned Ok({}) but the caller's writer, which accepts only {} bytes, received {}", label, data.len(), n, room, sink.got.len())));
            }
        }
    }
}

pub fn check_blob<T: std::io::Read + std::io::Seek>(label: &str, b: &Blob, data: &[u8], rd: &mut E57Reader<T>, prop: &'static str, v: &mut Vec<Viol>) {
    if b.length != data.len() as u64 {
        v.push(viol(prop, "blob/descriptor-length".into(), format!("{} descriptor length {} but {} bytes were written", label, b.length, data.len())));
    }
    match guarded(|| read_blob(rd, b)) {
        Err(p) => v.push(viol("C08", format!("panic/blob/{}", panic_sig(&p)), p)),
        Ok(Err(e)) => v.push(viol(prop, format!("blob/read-error/{}", class_of(&e)), format!("{} ({}+{}): {}", label, b.offset, b.length, e))),
        Ok(Ok((n, out))) => {
            if n != b.length || out.len() as u64 != n {
                v.push(viol(prop, "blob/short-or-long".into(), format!("{} returned n={} wrote {} bytes, descriptor length {}", label, n, out.len(), b.length)));
            } else if out != data {
                let first = out.iter().zip(data.iter()).position(|(a, b)| a != b).unwrap_or(0);
                v.push(viol(prop, "blob/content".into(), format!("{} ({}+{}) differs at byte {}", label, b.offset, b.length, first)));
            }
        }
    }
}

fn check_image<T: std::io::Read + std::io::Seek>(i: usize, spec: &ImgSpec, got: &Image, rd: &mut E57Reader<T>, v: &mut Vec<Viol>, ctx: &mut Ctx) {
    let c04 = ctx.p("C04");
    let c06 = ctx.p("C06");
    let m = &spec.meta;
    let mut cmp = |k: &str, a: String, b: String, v: &mut Vec<Viol>| {
        ctx.stats.fields += 1;
        if a != b {
            v.push(viol(c04, format!("field/img.{}", k), format!("img{}.{}: expected {} got {}", i, k, trunc(&a), trunc(&b))));
        }
    };
    let os = |x: &Option<String>| format!("{:?}", x);
    cmp("guid", os(&Some(spec.guid.clone())), os(&got.guid), v);
    cmp("name", os(&m.name), os(&got.name), v);
    cmp("description", os(&m.description), os(&got.description), v);
    cmp("pointcloud_guid", os(&m.pointcloud_guid), os(&got.pointcloud_guid), v);
    cmp("transform", transform_str(&m.transform), transform_str(&got.transform), v);
    cmp("acquisition", datetime_str(&m.acquisition), datetime_str(&got.acquisition), v);
    cmp("sensor_vendor", os(&m.sensor_vendor), os(&got.sensor_vendor), v);
    cmp("sensor_model", os(&m.sensor_model), os(&got.sensor_model), v);
    cmp("sensor_serial", os(&m.sensor_serial), os(&got.sensor_serial), v);
    // visual reference
    match (&spec.visual, &got.visual_reference) {
        (None, None) => {}
        (Some(rep), Some(g)) => {
            cmp("visual.format", format!("{}", rep.png), format!("{}", matches!(g.blob.format, ImageFormat::Png)), v);
            cmp("visual.width", rep.width.to_string(), g.properties.width.to_string(), v);
            cmp("visual.height", rep.height.to_string(), g.properties.height.to_string(), v);
            cmp("visual.mask", rep.mask.is_some().to_string(), g.mask.is_some().to_string(), v);
            ctx.stats.blobs += 1;
            check_blob(&format!("img{}.visual", i), &g.blob.data, &rep.data, rd, c06, v);
            if let (Some(md), Some(mb)) = (&rep.mask, &g.mask) {
                ctx.stats.blobs += 1;
                check_blob(&format!("img{}.visual.mask", i), mb, md, rd, c06, v);
            }
        }
        (a, b) => v.push(viol(c04, "field/img.visual_reference".into(), format!("img{} visual reference expected {} got {}", i, a.is_some(), b.is_some()))),
    }
    match (&spec.proj, &got.projection) {
        (None, None) => {}
        (Some((kind, rep)), Some(g)) => {
            let (gk, gblob, gmask, gw, gh, gf): (&str, &ImageBlob, &Option<Blob>, u32, u32, Vec<f64>) = match g {
                Projection::Pinhole(p) => (
                    "Pinhole",
                    &p.blob,
                    &p.mask,
                    p.properties.width,
                    p.properties.height,
                    vec![p.properties.focal_length, p.properties.pixel_width, p.properties.pixel_height, p.properties.principal_x, p.properties.principal_y],
                ),
                Projection::Spherical(p) => ("Spherical", &p.blob, &p.mask, p.properties.width, p.properties.height, vec![p.properties.pixel_width, p.properties.pixel_height]),
                Projection::Cylindrical(p) => (
                    "Cylindrical",
                    &p.blob,
                    &p.mask,
                    p.properties.width,
                    p.properties.height,
                    vec![p.properties.radius, p.properties.principal_y, p.properties.pixel_width, p.properties.pixel_height],
                ),
            };
            cmp("proj.kind", format!("{:?}", kind), gk.to_string(), v);
            if format!("{:?}", kind) == gk {
                cmp("proj.format", format!("{}", rep.png), format!("{}", matches!(gblob.format, ImageFormat::Png)), v);
                cmp("proj.width", rep.width.to_string(), gw.to_string(), v);
                cmp("proj.height", rep.height.to_string(), gh.to_string(), v);
                for (fi, g) in gf.iter().enumerate() {
                    cmp(&format!("proj.{}.f{}", gk, fi), f64s(rep.f[fi]), f64s(*g), v);
                }
                cmp("proj.mask", rep.mask.is_some().to_string(), gmask.is_some().to_string(), v);
                ctx.stats.blobs += 1;
                check_blob(&format!("img{}.proj", i), &gblob.data, &rep.data, rd, c06, v);
                if let (Some(md), Some(mb)) = (&rep.mask, gmask) {
                    ctx.stats.blobs += 1;
                    check_blob(&format!("img{}.proj.mask", i), mb, md, rd, c06, v);
                }
            }
        }
        (a, b) => v.push(viol(c04, "field/img.projection".into(), format!("img{} projection expected {} got {}", i, a.is_some(), b.is_some()))),
    }
}

fn has_duplicate_names(p: &[Record]) -> bool {
    for (i, a) in p.iter().enumerate() {
        if p[i + 1..].iter().any(|b| b.name == a.name) {
            return true;
        }
    }
    false
}

fn check_bounds(i: usize, exp: &ExpPc, got: &PointCloud, c14: &'static str, v: &mut Vec<Viol>, ctx: &mut Ctx) {
    use RecordName::*;
    if has_duplicate_names(&exp.prototype) {
        // which of two equally named records feeds the bounds is not defined by anything
        return;
    }
    let idx = |n: &RecordName| exp.prototype.iter().position(|r| &r.name == n);
    ctx.stats.bounds_checked += 1;
    // cartesian
    let has_c = idx(&CartesianX).is_some();
    match (&got.cartesian_bounds, has_c) {
        (None, false) => {}
        (Some(b), true) => {
            for (n, gmin, gmax, label) in [(CartesianX, b.x_min, b.x_max, "x"), (CartesianY, b.y_min, b.y_max, "y"), (CartesianZ, b.z_min, b.z_max, "z")] {
                if let Some(ix) = idx(&n) {
                    if let Some(f) = fold_f64(&exp.points, ix, &exp.prototype[ix].data_type) {
                        let (emin, emax) = match f {
                            Some((a, b)) => (Some(a), Some(b)),
                            None => (None, None),
                        };
                        if !feq(&emin, &gmin) || !feq(&emax, &gmax) {
                            v.push(viol(
                                c14,
                                format!("bounds/cartesian/{}", label),
                                format!("pc{} {} bounds expected [{:?},{:?}] got [{:?},{:?}] over {} points", i, label, emin, emax, gmin, gmax, exp.points.len()),
                            ));
                        }
                    }
                }
            }
        }
        (g, h) => v.push(viol(c14, "bounds/cartesian/presence".into(), format!("pc{} cartesian bounds present={} but prototype has cartesian={}", i, g.is_some(), h))),
    }
    let has_s = idx(&SphericalAzimuth).is_some();
    match (&got.spherical_bounds, has_s) {
        (None, false) => {}
        (Some(b), true) => {
            for (n, gmin, gmax, label) in [
                (SphericalRange, b.range_min, b.range_max, "range"),
                (SphericalAzimuth, b.azimuth_start, b.azimuth_end, "azimuth"),
                (SphericalElevation, b.elevation_min, b.elevation_max, "elevation"),
            ] {
                if let Some(ix) = idx(&n) {
                    if let Some(f) = fold_f64(&exp.points, ix, &exp.prototype[ix].data_type) {
                        let (emin, emax) = match f {
                            Some((a, b)) => (Some(a), Some(b)),
                            None => (None, None),
                        };
                        if !feq(&emin, &gmin) || !feq(&emax, &gmax) {
                            v.push(viol(
                                c14,
                                format!("bounds/spherical/{}", label),
                                format!("pc{} {} bounds expected [{:?},{:?}] got [{:?},{:?}] over {} points", i, label, emin, emax, gmin, gmax, exp.points.len()),
                            ));
                        }
                    }
                }
            }
        }
        (g, h) => v.push(viol(c14, "bounds/spherical/presence".into(), format!("pc{} spherical bounds present={} but prototype has spherical={}", i, g.is_some(), h))),
    }
    let has_i = idx(&RowIndex).is_some() || idx(&ColumnIndex).is_some() || idx(&ReturnIndex).is_some();
    match (&got.index_bounds, has_i) {
        (None, false) => {}
        (Some(b), true) => {
            for (n, gmin, gmax, label) in [(RowIndex, b.row_min, b.row_max, "row"), (ColumnIndex, b.column_min, b.column_max, "column"), (ReturnIndex, b.return_min, b.return_max, "return")] {
                let (emin, emax) = match idx(&n) {
                    Some(ix) => match fold_i64(&exp.points, ix) {
                        Some((a, b)) => (Some(a), Some(b)),
                        None => (None, None),
                    },
                    None => (None, None),
                };
                if emin != gmin || emax != gmax {
                    v.push(viol(c14, format!("bounds/index/{}", label), format!("pc{} {} bounds expected [{:?},{:?}] got [{:?},{:?}]", i, label, emin, emax, gmin, gmax)));
                }
            }
        }
        (g, h) => v.push(viol(c14, "bounds/index/presence".into(), format!("pc{} index bounds present={} but prototype has index={}", i, g.is_some(), h))),
    }
}

fn check_within(i: usize, got: &PointCloud, items: &[RawValues], c14: &'static str, v: &mut Vec<Viol>) {
    use RecordName::*;
    if has_duplicate_names(&got.prototype) {
        return;
    }
    let idx = |n: &RecordName| got.prototype.iter().position(|r| &r.name == n);
    let mut checks: Vec<(usize, Option<f64>, Option<f64>, &str)> = Vec::new();
    if let Some(b) = &got.cartesian_bounds {
        for (n, lo, hi, l) in [(CartesianX, b.x_min, b.x_max, "x"), (CartesianY, b.y_min, b.y_max, "y"), (CartesianZ, b.z_min, b.z_max, "z")] {
            if let Some(ix) = idx(&n) {
                checks.push((ix, lo, hi, l));
            }
        }
    }
    if let Some(b) = &got.spherical_bounds {
        for (n, lo, hi, l) in [(SphericalRange, b.range_min, b.range_max, "range"), (SphericalAzimuth, b.azimuth_start, b.azimuth_end, "azimuth"), (SphericalElevation, b.elevation_min, b.elevation_max, "elevation")] {
            if let Some(ix) = idx(&n) {
                checks.push((ix, lo, hi, l));
            }
        }
    }
    if let Some(b) = &got.index_bounds {
        for (n, lo, hi, l) in [(RowIndex, b.row_min, b.row_max, "row"), (ColumnIndex, b.column_min, b.column_max, "column"), (ReturnIndex, b.return_min, b.return_max, "return")] {
            if let Some(ix) = idx(&n) {
                checks.push((ix, lo.map(|x| x as f64), hi.map(|x| x as f64), l));
            }
        }
    }
    for (ix, lo, hi, l) in checks {
        let d = &got.prototype[ix].data_type;
        let is_index = matches!(l, "row" | "column" | "return");
        for (pi, p) in items.iter().enumerate() {
            if ix >= p.len() {
                break;
            }
            let outside = if is_index {
                // compare exactly in integers
                if let RecordValue::Integer(x) = p[ix] {
                    lo.map_or(true, |lo| (x as f64) < lo && (x as i128) < lo as i128) || hi.map_or(true, |hi| (x as f64) > hi && (x as i128) > hi as i128)
                } else {
                    false
                }
            } else {
                let x = model_f64(&p[ix], d);
                if x.is_nan() {
                    false
                } else {
                    lo.map_or(true, |lo| x < lo) || hi.map_or(true, |hi| x > hi)
                }
            };
            if outside {
                v.push(viol(c14, format!("bounds/point-outside/{}", l), format!("pc{} point {} {} lies outside stored bounds [{:?},{:?}]", i, pi, l, lo, hi)));
                break;
            }
        }
    }
}

// ------------------------------------------------------------------ intent JSON (for the Python decoder, C02)

fn jval(v: &RecordValue) -> J {
    J::Str(val_str(v))
}

fn jrep(kind: &str, rep: &RepSpec) -> J {
    J::obj()
        .set("kind", J::s(kind))
        .set("png", J::Bool(rep.png))
        .set("data_fnv", J::Str(format!("{:016x}", fnv64(&rep.data))))
        .set("data_len", J::u(rep.data.len()))
        .set("mask_fnv", J::opt(&rep.mask, |m| J::Str(format!("{:016x}", fnv64(m)))))
        .set("mask_len", J::opt(&rep.mask, |m| J::u(m.len())))
        .set("width", J::i(rep.width))
        .set("height", J::i(rep.height))
        .set("f", J::Arr(rep.f.iter().map(|x| J::f64b(*x)).collect()))
}

fn jostr(v: &Option<String>) -> J {
    J::opt(v, |s| J::s(s))
}
fn jof(v: &Option<f64>) -> J {
    J::opt(v, |x| J::f64b(*x))
}
fn jdt(d: &Option<DateTime>) -> J {
    J::opt(d, |d| J::obj().set("gps", J::f64b(d.gps_time)).set("atomic", J::Bool(d.atomic_reference)))
}
fn jtr(t: &Option<Transform>) -> J {
    J::opt(t, |t| {
        J::obj()
            .set("q", J::Arr(vec![J::f64b(t.rotation.w), J::f64b(t.rotation.x), J::f64b(t.rotation.y), J::f64b(t.rotation.z)]))
            .set("t", J::Arr(vec![J::f64b(t.translation.x), J::f64b(t.translation.y), J::f64b(t.translation.z)]))
    })
}

pub fn intent_json(scene: &Scene, run: &RunResult) -> J {
    let mut o = J::obj();
    o.put("guid", J::s(&scene.guid));
    o.put("coord", jostr(&scene.coord.clone().flatten()));
    o.put("creation", jdt(&scene.creation.clone().flatten()));
    o.put("extensions", J::Arr(run.exts.iter().map(|e| J::obj().set("ns", J::s(&e.namespace)).set("url", J::s(&e.url))).collect()));
    o.put("xml_fnv", J::opt(&run.xml_written, |x| J::Str(format!("{:016x}", fnv64(x.as_bytes())))));
    let mut pcs = Vec::new();
    for pc in &run.pcs {
        let m = &pc.meta;
        let eil = expected_intensity_limits(&pc.prototype, &m.intensity_limits);
        let ecl = expected_color_limits(&pc.prototype, &m.color_limits);
        let jv = |x: &Option<RecordValue>| J::opt(x, jval);
        pcs.push(
            J::obj()
                .set("guid", J::s(&pc.guid))
                .set("tainted", J::Bool(pc.tainted))
                .set("prototype", J::Arr(pc.prototype.iter().map(jrecord).collect()))
                .set("points", J::Arr(pc.points.iter().map(|p| J::Str(raw_str(p))).collect()))
                .set("name", jostr(&m.name))
                .set("description", jostr(&m.description))
                .set("original_guids", J::opt(&m.original_guids, |g| J::Arr(g.iter().map(|s| J::s(s)).collect())))
                .set("transform", jtr(&m.transform))
                .set("acquisition_start", jdt(&m.acq_start))
                .set("acquisition_end", jdt(&m.acq_end))
                .set("sensor_vendor", jostr(&m.sensor_vendor))
                .set("sensor_model", jostr(&m.sensor_model))
                .set("sensor_serial", jostr(&m.sensor_serial))
                .set("sensor_hw_version", jostr(&m.sensor_hw))
                .set("sensor_sw_version", jostr(&m.sensor_sw))
                .set("sensor_fw_version", jostr(&m.sensor_fw))
                .set("temperature", jof(&m.temperature))
                .set("humidity", jof(&m.humidity))
                .set("atmospheric_pressure", jof(&m.pressure))
                .set("intensity_limits", J::opt(&eil, |l| J::Arr(vec![jv(&l.intensity_min), jv(&l.intensity_max)])))
                .set(
                    "color_limits",
                    J::opt(&ecl, |l| J::Arr(vec![jv(&l.red_min), jv(&l.red_max), jv(&l.green_min), jv(&l.green_max), jv(&l.blue_min), jv(&l.blue_max)])),
                ),
        );
    }
    o.put("pointclouds", J::Arr(pcs));
    let mut imgs = Vec::new();
    for im in &run.imgs {
        let s = &im.spec;
        let m = &s.meta;
        imgs.push(
            J::obj()
                .set("guid", J::s(&s.guid))
                .set("visual", J::opt(&s.visual, |r| jrep("visual", r)))
                .set("proj", J::opt(&s.proj, |(k, r)| jrep(&format!("{:?}", k).to_lowercase(), r)))
                .set("name", jostr(&m.name))
                .set("description", jostr(&m.description))
                .set("pointcloud_guid", jostr(&m.pointcloud_guid))
                .set("transform", jtr(&m.transform))
                .set("acquisition", jdt(&m.acquisition))
                .set("sensor_vendor", jostr(&m.sensor_vendor))
                .set("sensor_model", jostr(&m.sensor_model))
                .set("sensor_serial", jostr(&m.sensor_serial)),
        );
    }
    o.put("images", J::Arr(imgs));
    o.put(
        "blobs",
        J::Arr(
            run.blobs
                .iter()
                .map(|(b, d)| {
                    J::obj()
                        .set("offset", J::Str(b.offset.to_string()))
                        .set("length", J::Str(b.length.to_string()))
                        .set("fnv", J::Str(format!("{:016x}", fnv64(d))))
                })
                .collect(),
        ),
    );
    o
}
