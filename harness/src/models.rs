//! Reference models written from the documentation / property text, not from the code:
//! the simple-point view (C05) and colour/intensity normalisation (C13).

use crate::obs::Opts;
use crate::readback::model_f64;
use e57::*;

#[derive(Clone, Debug, PartialEq)]
pub enum MC {
    Valid([f64; 3]),
    Direction([f64; 3]),
    Invalid,
}
#[derive(Clone, Debug, PartialEq)]
pub enum MS {
    Valid([f64; 3]), // range, azimuth, elevation
    Direction([f64; 2]),
    Invalid,
}

#[derive(Clone, Debug)]
pub struct MPoint {
    pub cart: MC,
    pub sph: MS,
    /// None = absent; Some(None) = present but numeric value left to C13 (normalised); Some(Some(v)) exact
    pub color: Option<[Option<f32>; 3]>,
    pub intensity: Option<Option<f32>>,
    pub color_from_intensity: bool,
    pub row: i64,
    pub column: i64,
    /// which branches produced the coordinates (coverage + tolerance selection)
    pub cart_derived: bool,
    pub sph_derived: bool,
    pub posed: bool,
}

fn idx(p: &[Record], n: RecordName) -> Option<usize> {
    p.iter().position(|r| r.name == n)
}

fn int_of(v: &RecordValue) -> Option<i64> {
    match v {
        RecordValue::Integer(i) => Some(*i),
        _ => None,
    }
}

pub fn quat_rotate(q: &Quaternion, v: [f64; 3]) -> [f64; 3] {
    // q * (0,v) * conj(q) with Hamilton products (independent of the 3x3 matrix form)
    let mul = |a: [f64; 4], b: [f64; 4]| -> [f64; 4] {
        [
            a[0] * b[0] - a[1] * b[1] - a[2] * b[2] - a[3] * b[3],
            a[0] * b[1] + a[1] * b[0] + a[2] * b[3] - a[3] * b[2],
            a[0] * b[2] - a[1] * b[3] + a[2] * b[0] + a[3] * b[1],
            a[0] * b[3] + a[1] * b[2] - a[2] * b[1] + a[3] * b[0],
        ]
    };
    let qq = [q.w, q.x, q.y, q.z];
    let qc = [q.w, -q.x, -q.y, -q.z];
    let r = mul(mul(qq, [0.0, v[0], v[1], v[2]]), qc);
    [r[1], r[2], r[3]]
}

/// Err(()) = the simple iterator is allowed (required) to fail on this point:
/// a stored invalid-state value lies outside its documented set.
pub fn simple_point(raw: &[RecordValue], pc: &PointCloud, o: Opts) -> std::result::Result<MPoint, &'static str> {
    use RecordName::*;
    let p = &pc.prototype;
    let f = |i: usize| model_f64(&raw[i], &p[i].data_type);
    let cart_idx = match (idx(p, CartesianX), idx(p, CartesianY), idx(p, CartesianZ)) {
        (Some(a), Some(b), Some(c)) => Some((a, b, c)),
        _ => None,
    };
    let sph_idx = match (idx(p, SphericalRange), idx(p, SphericalAzimuth), idx(p, SphericalElevation)) {
        (Some(a), Some(b), Some(c)) => Some((a, b, c)),
        _ => None,
    };
    let state = |flag: Option<usize>, present: bool, absent_default: i64| -> std::result::Result<i64, &'static str> {
        match flag {
            Some(i) => int_of(&raw[i]).ok_or("state-not-integer"),
            None => Ok(if present { 0 } else { absent_default }),
        }
    };
    let cs = state(idx(p, CartesianInvalidState), cart_idx.is_some(), 2)?;
    let mut cart = match cart_idx {
        Some((a, b, c)) => match cs {
            0 => MC::Valid([f(a), f(b), f(c)]),
            1 => MC::Direction([f(a), f(b), f(c)]),
            2 => MC::Invalid,
            _ => return Err("cartesian-state-out-of-set"),
        },
        None => MC::Invalid,
    };
    let ss = state(idx(p, SphericalInvalidState), sph_idx.is_some(), 2)?;
    let mut sph = match sph_idx {
        Some((a, b, c)) => match ss {
            0 => MS::Valid([f(a), f(b), f(c)]),
            1 => MS::Direction([f(b), f(c)]),
            2 => MS::Invalid,
            _ => return Err("spherical-state-out-of-set"),
        },
        None => MS::Invalid,
    };
    let col_idx = match (idx(p, ColorRed), idx(p, ColorGreen), idx(p, ColorBlue)) {
        (Some(a), Some(b), Some(c)) => Some((a, b, c)),
        _ => None,
    };
    let cis = state(idx(p, IsColorInvalid), col_idx.is_some(), 1)?;
    let mut color = match col_idx {
        Some((a, b, c)) => match cis {
            0 => {
                if o.nc() {
                    Some([None, None, None])
                } else {
                    Some([Some(f(a) as f32), Some(f(b) as f32), Some(f(c) as f32)])
                }
            }
            1 => None,
            _ => return Err("color-state-out-of-set"),
        },
        None => None,
    };
    let int_idx = idx(p, Intensity);
    let iis = state(idx(p, IsIntensityInvalid), int_idx.is_some(), 1)?;
    let intensity = match int_idx {
        Some(i) => match iis {
            0 => {
                if o.ni() {
                    Some(None)
                } else {
                    Some(Some(f(i) as f32))
                }
            }
            1 => None,
            _ => return Err("intensity-state-out-of-set"),
        },
        None => None,
    };
    let row = match idx(p, RowIndex) {
        Some(i) => int_of(&raw[i]).ok_or("row-not-integer")?,
        None => -1,
    };
    let column = match idx(p, ColumnIndex) {
        Some(i) => int_of(&raw[i]).ok_or("column-not-integer")?,
        None => -1,
    };
    let mut cart_derived = false;
    let mut sph_derived = false;
    if o.s2c() {
        if !matches!(cart, MC::Valid(_)) {
            if let MS::Valid([r, az, el]) = sph {
                cart = MC::Valid([r * el.cos() * az.cos(), r * el.cos() * az.sin(), r * el.sin()]);
                cart_derived = true;
            } else if matches!(cart, MC::Invalid) {
                if let MS::Direction([az, el]) = sph {
                    cart = MC::Direction([el.cos() * az.cos(), el.cos() * az.sin(), el.sin()]);
                    cart_derived = true;
                }
            }
        }
    }
    if o.c2s() {
        if !matches!(sph, MS::Valid(_)) {
            if let MC::Valid([x, y, z]) = cart {
                let r = (x * x + y * y + z * z).sqrt();
                sph = MS::Valid([r, y.atan2(x), (z / r).asin()]);
                sph_derived = true;
            } else if matches!(sph, MS::Invalid) {
                if let MC::Direction([x, y, z]) = cart {
                    let r = (x * x + y * y + z * z).sqrt();
                    sph = MS::Direction([y.atan2(x), (z / r).asin()]);
                    sph_derived = true;
                }
            }
        }
    }
    let mut color_from_intensity = false;
    if o.i2c() && color.is_none() {
        if let Some(i) = intensity {
            color = Some([i, i, i]);
            color_from_intensity = true;
        }
    }
    let mut posed = false;
    if o.pose() {
        if let (Some(t), MC::Valid(v)) = (&pc.transform, &cart) {
            let r = quat_rotate(&t.rotation, *v);
            cart = MC::Valid([r[0] + t.translation.x, r[1] + t.translation.y, r[2] + t.translation.z]);
            posed = true;
        }
    }
    Ok(MPoint { cart, sph, color, intensity, color_from_intensity, row, column, cart_derived, sph_derived, posed })
}

pub fn close(a: f64, b: f64, tol: f64) -> bool {
    if a.is_nan() || b.is_nan() {
        return a.is_nan() && b.is_nan();
    }
    if a.is_infinite() || b.is_infinite() {
        return a == b;
    }
    (a - b).abs() <= tol * 1f64.max(a.abs()).max(b.abs())
}

/// Compare model and implementation point. Returns None if equal, Some(aspect) otherwise.
pub fn compare_point(m: &MPoint, g: &Point, scale_hint: f64) -> Option<String> {
    let tol_c = if m.posed { 1e-9 } else if m.cart_derived { 1e-12 } else { 0.0 };
    // after a pose the absolute error scales with the magnitude of the un-posed vector
    let abs_extra = if m.posed { 1e-9 * scale_hint } else { 0.0 };
    let cmp3 = |a: &[f64; 3], b: [f64; 3], tol: f64, extra: f64| -> bool {
        // numeric equality (so that -0.0 == 0.0: an identity pose may legitimately turn -0.0 into 0.0)
        (0..3).all(|i| if tol == 0.0 && extra == 0.0 { a[i] == b[i] || (a[i].is_nan() && b[i].is_nan()) } else { close(a[i], b[i], tol) || (a[i] - b[i]).abs() <= extra })
    };
    match (&m.cart, &g.cartesian) {
        (MC::Valid(a), CartesianCoordinate::Valid { x, y, z }) => {
            if !cmp3(a, [*x, *y, *z], tol_c, abs_extra) {
                return Some(format!("cartesian-value(posed={},derived={}) model {:?} impl {:?}", m.posed, m.cart_derived, a, [x, y, z]));
            }
        }
        (MC::Direction(a), CartesianCoordinate::Direction { x, y, z }) => {
            let t = if m.cart_derived { 1e-12 } else { 0.0 };
            if !cmp3(a, [*x, *y, *z], t, 0.0) {
                return Some(format!("cartesian-direction model {:?} impl {:?}", a, [x, y, z]));
            }
        }
        (MC::Invalid, CartesianCoordinate::Invalid) => {}
        (a, b) => return Some(format!("cartesian-validity model {:?} impl {:?}", a, b)),
    }
    let tol_s = if m.sph_derived { 1e-12 } else { 0.0 };
    match (&m.sph, &g.spherical) {
        (MS::Valid(a), SphericalCoordinate::Valid { range, azimuth, elevation }) => {
            if !cmp3(a, [*range, *azimuth, *elevation], tol_s, 0.0) {
                return Some(format!("spherical-value(derived={}) model {:?} impl {:?}", m.sph_derived, a, [range, azimuth, elevation]));
            }
        }
        (MS::Direction(a), SphericalCoordinate::Direction { azimuth, elevation }) => {
            let ok = if tol_s == 0.0 {
                (a[0].to_bits() == azimuth.to_bits() || (a[0].is_nan() && azimuth.is_nan())) && (a[1].to_bits() == elevation.to_bits() || (a[1].is_nan() && elevation.is_nan()))
            } else {
                close(a[0], *azimuth, tol_s) && close(a[1], *elevation, tol_s)
            };
            if !ok {
                return Some(format!("spherical-direction model {:?} impl {:?}", a, [azimuth, elevation]));
            }
        }
        (MS::Invalid, SphericalCoordinate::Invalid) => {}
        (a, b) => return Some(format!("spherical-validity model {:?} impl {:?}", a, b)),
    }
    match (&m.color, &g.color) {
        (None, None) => {}
        (Some(mc), Some(gc)) => {
            let gs = [gc.red, gc.green, gc.blue];
            for i in 0..3 {
                if let Some(v) = mc[i] {
                    if v.to_bits() != gs[i].to_bits() && !(v.is_nan() && gs[i].is_nan()) {
                        return Some(format!("color-value(from_intensity={}) model {:?} impl {:?}", m.color_from_intensity, mc, gs));
                    }
                }
            }
            if m.color_from_intensity {
                // grey: all three equal the delivered intensity, whatever its normalisation
                if let Some(i) = g.intensity {
                    if !gs.iter().all(|c| c.to_bits() == i.to_bits() || (c.is_nan() && i.is_nan())) {
                        return Some(format!("grey-not-intensity impl color {:?} intensity {:?}", gs, i));
                    }
                }
            }
        }
        (a, b) => return Some(format!("color-presence(from_intensity={}) model {:?} impl {:?}", m.color_from_intensity, a.is_some(), b.is_some())),
    }
    match (&m.intensity, &g.intensity) {
        (None, None) => {}
        (Some(mi), Some(gi)) => {
            if let Some(v) = mi {
                if v.to_bits() != gi.to_bits() && !(v.is_nan() && gi.is_nan()) {
                    return Some(format!("intensity-value model {:?} impl {:?}", v, gi));
                }
            }
        }
        (a, b) => return Some(format!("intensity-presence model {:?} impl {:?}", a.is_some(), b.is_some())),
    }
    if m.row != g.row {
        return Some(format!("row model {} impl {}", m.row, g.row));
    }
    if m.column != g.column {
        return Some(format!("column model {} impl {}", m.column, g.column));
    }
    None
}

// ------------------------------------------------------------------ C13 normalisation model

/// real-valued (min,max) of a declared data type; None when the type gives no finite pair
pub fn type_range(d: &RecordDataType) -> (f64, f64) {
    match d {
        RecordDataType::Single { min, max } => (min.unwrap_or(f32::MIN) as f64, max.unwrap_or(f32::MAX) as f64),
        RecordDataType::Double { min, max } => (min.unwrap_or(f64::MIN), max.unwrap_or(f64::MAX)),
        RecordDataType::ScaledInteger { min, max, scale, offset } => (*min as f64 * scale + offset, *max as f64 * scale + offset),
        RecordDataType::Integer { min, max } => (*min as f64, *max as f64),
    }
}

/// candidate ranges the statement allows for an attribute: the limits (when both given) and/or the type range.
/// Returns (candidates, class) where class names the cell of the (type x limits) grid.
pub fn candidate_ranges(d: &RecordDataType, lmin: &Option<RecordValue>, lmax: &Option<RecordValue>) -> (Vec<(f64, f64)>, &'static str) {
    let tr = type_range(d);
    let real = |v: &RecordValue| -> f64 {
        match v {
            RecordValue::Single(x) => *x as f64,
            RecordValue::Double(x) => *x,
            RecordValue::Integer(i) => *i as f64,
            RecordValue::ScaledInteger(i) => match d {
                RecordDataType::ScaledInteger { scale, offset, .. } => *i as f64 * scale + offset,
                _ => *i as f64,
            },
        }
    };
    let variant = |v: &RecordValue| match v {
        RecordValue::Single(_) => 0,
        RecordValue::Double(_) => 1,
        RecordValue::Integer(_) => 2,
        RecordValue::ScaledInteger(_) => 3,
    };
    match (lmin, lmax) {
        (Some(a), Some(b)) => {
            let same = variant(a) == variant(b);
            let matches_attr = matches!(
                (d, a),
                (RecordDataType::Single { .. }, RecordValue::Single(_)) | (RecordDataType::Double { .. }, RecordValue::Double(_)) | (RecordDataType::Integer { .. }, RecordValue::Integer(_)) | (RecordDataType::ScaledInteger { .. }, RecordValue::ScaledInteger(_))
            );
            if same && matches_attr {
                (vec![(real(a), real(b))], "limits-complete-same-type")
            } else if same {
                // limits of one type that is not the attribute's type: the statement does not say how a
                // scaled/unscaled mismatch is to be read, so either the limits or the type range is accepted
                (vec![(real(a), real(b)), tr], "limits-complete-other-type")
            } else {
                (vec![(real(a), real(b)), tr], "limits-complete-mixed-type")
            }
        }
        (None, None) => (vec![tr], "limits-absent"),
        _ => (vec![tr], "limits-partial"),
    }
}

/// clamp((v-min)/(max-min)) computed without intermediate overflow; degenerate -> 0
pub fn norm_expected(v: f64, min: f64, max: f64) -> Option<f64> {
    if !(min.is_finite() && max.is_finite()) || min > max {
        return None; // not a range the statement defines
    }
    if min == max {
        return Some(0.0);
    }
    let c = if v < min { min } else if v > max { max } else { v };
    // halve the operands only when max-min would overflow (halving loses the last bit of subnormals)
    let (num, den) = if (max - min).is_finite() { (c - min, max - min) } else { (c * 0.5 - min * 0.5, max * 0.5 - min * 0.5) };
    if den == 0.0 {
        return Some(0.0);
    }
    Some((num / den).clamp(0.0, 1.0))
}
