// placeholder
