//! Workload "roundtrip": writer programs -> file -> fresh reader, judged by the intent model.
//! Modes: c01 (raw points), c04 (metadata), c06 (blobs), c10 (hostile caller), c14 (bounds),
//! c02/c12w (files + intent are exported for the independent Python decoder).

use crate::dev::Dev;
use crate::json::J;
use crate::readback::*;
use crate::rng::Rng;
use crate::scene::*;
use crate::{Args, Reporter};
use e57::*;

pub fn knobs_for(mode: &str, idx: u64, a: &Args, r: &mut Rng) -> Knobs {
    let mut k = Knobs::base();
    let thorough = a.thorough();
    match mode {
        "c01" => {
            k.max_items = if thorough { 6 } else { 4 };
            if idx % 2 == 0 {
                // sweep every 4-aligned residue of the section start modulo 1020
                k.residue_sweep = Some((((idx / 2) % 255) * 4) as u32);
            }
            if idx % 7 == 3 {
                k.width_focus = Some(((idx / 7) % 65) as usize);
            }
            k.max_records = if thorough && r.chance(1, 10) { 64 } else { 24 };
            if idx % 64 == 5 {
                k.full_packets = true;
                k.max_records = 1 + ((idx / 64) % 6) as usize;
                k.max_items = 2;
            }
        }
        "c04" => {
            k.meta_heavy = true;
            k.wild_strings = true;
            k.wild_ext = r.chance(1, 2);
            k.big_points = false;
            k.max_items = 4;
        }
        "c06" => {
            k.blob_heavy = true;
            k.big_points = false;
            k.max_items = 6;
            if idx % 2 == 0 {
                k.residue_sweep = Some((((idx / 2) % 255) * 4) as u32);
            }
        }
        "c10" => {
            k.hostile = true;
            k.max_items = 4;
            k.wild_ext = r.chance(1, 3);
            k.big_points = r.chance(1, 10);
            if idx % 64 == 5 {
                k.full_packets = true;
                k.max_records = 1 + ((idx / 64) % 6) as usize;
                k.max_items = 2;
            }
        }
        "c18" => {
            // extension attributes over all accepted names / namespaces, also named like standard ones
            k.ext_std_names = true;
            k.wild_ext = true;
            k.big_points = false;
            k.max_items = 3;
        }
        "c12w" => {
            // writer direction of the C12 grid: width = idx mod 65, value set = (idx / 65) mod 5
            k.width_focus = Some((idx % 65) as usize);
            k.max_items = 2;
            k.max_records = 10;
            k.big_points = (idx / 325) % 8 == 7; // a sub-grid crosses packet boundaries
        }
        "c14" => {
            k.bounds_focus = true;
            k.nan_ok = false;
            k.big_points = r.chance(1, 20);
            k.max_items = 3;
        }
        _ => {
            // c02 and friends: a mixture
            match idx % 4 {
                0 => {
                    k.residue_sweep = Some((((idx / 4) % 255) * 4) as u32);
                }
                1 => {
                    k.meta_heavy = true;
                    k.wild_strings = true;
                    k.big_points = false;
                }
                2 => {
                    k.blob_heavy = true;
                    k.big_points = false;
                }
                _ => {
                    k.width_focus = Some(((idx / 4) % 65) as usize);
                }
            }
            k.big_points = k.big_points && r.chance(1, 6);
        }
    }
    k
}

/// C10: turn a conforming scene into a hostile one. Every mutation is tagged in the coverage.
pub fn hostile_mutate(scene: &mut Scene, r: &mut Rng, cover: &mut crate::Cover) {
    use RecordName::*;
    let mut new_items = Vec::new();
    for item in scene.items.drain(..) {
        match item {
            Item::Pc(mut pc) => {
                if r.chance(1, 2) {
                    let m = if r.chance(1, 60) { 100 } else { r.usize(18) };
                    let p = &mut pc.prototype;
                    let tag;
                    match m {
                        100 => {
                            // very wide prototypes: one point no longer fits a data packet, the packet header
                            // arithmetic runs out of room, the byte stream count exceeds u16
                            let n = *r.pick(&[1200usize, 5500, 5900, 6100, 9000, 16500, 21000, 22000, 33000, 66000]);
                            let kind = r.usize(3);
                            tag = match kind {
                                0 => "wide:f64",
                                1 => "wide:u8",
                                _ => "wide:zero-width-mostly",
                            };
                            cover.hit(&format!("hostile:prototype-wide:{}:{}", tag, n));
                            let ns = scene_first_ext(&new_items);
                            for i in 0..n {
                                let name = match &ns {
                                    Some(ns) => Unknown { namespace: ns.clone(), name: format!("w{}", i) },
                                    None => TimeStamp,
                                };
                                let dt = match kind {
                                    0 => RecordDataType::Double { min: None, max: None },
                                    1 => RecordDataType::U8,
                                    _ => RecordDataType::Integer { min: 7, max: 7 },
                                };
                                p.push(Record { name, data_type: dt });
                            }
                            pc.points.truncate(2);
                        }
                        0 => {
                            tag = "drop-coordinate-component";
                            if let Some(i) = p.iter().position(|x| matches!(x.name, CartesianX | CartesianY | CartesianZ | SphericalRange | SphericalAzimuth | SphericalElevation)) {
                                p.remove(i);
                            }
                        }
                        1 => {
                            tag = "invalid-state-wrong-range";
                            let n = r.pick(&[CartesianInvalidState, SphericalInvalidState, IsColorInvalid, IsIntensityInvalid, IsTimeStampInvalid]).clone();
                            let dt = r.pick(&[RecordDataType::Integer { min: 0, max: 3 }, RecordDataType::Integer { min: 0, max: 0 }, RecordDataType::Integer { min: -1, max: 1 }, RecordDataType::Single { min: None, max: None }, RecordDataType::ScaledInteger { min: 0, max: 1, scale: 1.0, offset: 0.0 }]).clone();
                            p.retain(|x| x.name != n);
                            p.push(Record { name: n, data_type: dt });
                        }
                        2 => {
                            let which = r.usize(3);
                            tag = ["angle-integer:both", "angle-integer:azimuth", "angle-integer:elevation"][which];
                            for x in p.iter_mut() {
                                if (x.name == SphericalAzimuth && which != 2) || (x.name == SphericalElevation && which != 1) {
                                    x.data_type = RecordDataType::Integer { min: -3, max: 3 };
                                }
                            }
                        }
                        3 => {
                            tag = "color-incomplete";
                            if let Some(i) = p.iter().position(|x| matches!(x.name, ColorRed | ColorGreen | ColorBlue)) {
                                p.remove(i);
                            } else {
                                p.push(Record { name: ColorGreen, data_type: RecordDataType::U8 });
                            }
                        }
                        4 => {
                            tag = "return-incomplete";
                            if let Some(i) = p.iter().position(|x| matches!(x.name, ReturnCount | ReturnIndex)) {
                                p.remove(i);
                            } else {
                                p.push(Record { name: ReturnIndex, data_type: RecordDataType::U8 });
                            }
                        }
                        5 => {
                            tag = "index-not-integer";
                            let n = r.pick(&[RowIndex, ColumnIndex, ReturnCount, ReturnIndex]).clone();
                            p.retain(|x| x.name != n);
                            p.push(Record { name: n.clone(), data_type: RecordDataType::Single { min: None, max: None } });
                            if n == ReturnCount && !p.iter().any(|x| x.name == ReturnIndex) {
                                p.push(Record { name: ReturnIndex, data_type: RecordDataType::U8 });
                            }
                            if n == ReturnIndex && !p.iter().any(|x| x.name == ReturnCount) {
                                p.push(Record { name: ReturnCount, data_type: RecordDataType::U8 });
                            }
                        }
                        6 => {
                            tag = "flag-without-attribute";
                            let (flag, attr) = r.pick(&[(IsIntensityInvalid, Intensity), (IsTimeStampInvalid, TimeStamp), (IsColorInvalid, ColorRed), (CartesianInvalidState, CartesianX), (SphericalInvalidState, SphericalAzimuth)]).clone();
                            let groups: Vec<RecordName> = match attr {
                                ColorRed => vec![ColorRed, ColorGreen, ColorBlue],
                                CartesianX => vec![CartesianX, CartesianY, CartesianZ],
                                SphericalAzimuth => vec![SphericalAzimuth, SphericalElevation, SphericalRange],
                                other => vec![other],
                            };
                            p.retain(|x| !groups.contains(&x.name) && x.name != flag);
                            let hi = if matches!(flag, CartesianInvalidState | SphericalInvalidState) { 2 } else { 1 };
                            p.push(Record { name: flag, data_type: RecordDataType::Integer { min: 0, max: hi } });
                        }
                        7 => {
                            tag = "all-zero-width";
                            for x in p.iter_mut() {
                                x.data_type = match (&x.name, &x.data_type) {
                                    (CartesianInvalidState | SphericalInvalidState | IsColorInvalid | IsIntensityInvalid | IsTimeStampInvalid, d) => d.clone(),
                                    (SphericalAzimuth | SphericalElevation, _) => RecordDataType::ScaledInteger { min: 5, max: 5, scale: 0.5, offset: 0.0 },
                                    (_, _) => RecordDataType::Integer { min: 7, max: 7 },
                                };
                            }
                            p.retain(|x| !matches!(x.name, CartesianInvalidState | SphericalInvalidState | IsColorInvalid | IsIntensityInvalid | IsTimeStampInvalid));
                        }
                        8 => {
                            tag = "full-i64-range";
                            for x in p.iter_mut() {
                                if matches!(x.data_type, RecordDataType::Integer { .. }) && !matches!(x.name, CartesianInvalidState | SphericalInvalidState | IsColorInvalid | IsIntensityInvalid | IsTimeStampInvalid) {
                                    x.data_type = RecordDataType::Integer { min: i64::MIN, max: i64::MAX };
                                }
                                if let RecordDataType::ScaledInteger { scale, offset, .. } = x.data_type {
                                    x.data_type = RecordDataType::ScaledInteger { min: i64::MIN, max: i64::MAX, scale, offset };
                                }
                            }
                        }
                        9 => {
                            tag = "duplicate-name";
                            if !p.is_empty() {
                                let d = r.pick(p).clone();
                                p.push(d);
                            }
                        }
                        10 => {
                            tag = "ext-unregistered";
                            p.push(Record { name: Unknown { namespace: "nosuchns".into(), name: "attr".into() }, data_type: RecordDataType::U8 });
                        }
                        11 => {
                            tag = "ext-name-malformed";
                            let bad = r.pick(&["", "xmlfoo", "XMLx", "a b", "ä", "a.b", "a:b", "<", "a\"b"]).to_string();
                            let ns = scene_first_ext(&new_items).unwrap_or_else(|| "nosuchns".to_string());
                            if r.bool() {
                                p.push(Record { name: Unknown { namespace: ns, name: bad }, data_type: RecordDataType::U8 });
                            } else {
                                p.push(Record { name: Unknown { namespace: bad, name: "attr".into() }, data_type: RecordDataType::U8 });
                            }
                        }
                        12 => {
                            tag = "ext-name-not-xml-start";
                            let bad = r.pick(&["1abc", "-x", "9", "-", "0_0"]).to_string();
                            if let Some(ns) = scene_first_ext(&new_items) {
                                p.push(Record { name: Unknown { namespace: ns, name: bad }, data_type: RecordDataType::U8 });
                            }
                        }
                        13 => {
                            tag = "min-greater-max";
                            if let Some(x) = p.iter_mut().find(|x| matches!(x.data_type, RecordDataType::Integer { .. } | RecordDataType::ScaledInteger { .. }) && !matches!(x.name, CartesianInvalidState | SphericalInvalidState | IsColorInvalid | IsIntensityInvalid | IsTimeStampInvalid)) {
                                x.data_type = match &x.data_type {
                                    RecordDataType::ScaledInteger { scale, offset, .. } => RecordDataType::ScaledInteger { min: 10, max: 3, scale: *scale, offset: *offset },
                                    _ => RecordDataType::Integer { min: 10, max: 3 },
                                };
                            } else {
                                p.push(Record { name: TimeStamp, data_type: RecordDataType::Integer { min: 1, max: 0 } });
                                p.dedup_by(|a, b| a.name == b.name);
                            }
                        }
                        14 => {
                            tag = "no-coordinates";
                            p.retain(|x| !matches!(x.name, CartesianX | CartesianY | CartesianZ | CartesianInvalidState | SphericalRange | SphericalAzimuth | SphericalElevation | SphericalInvalidState));
                        }
                        15 => {
                            tag = "empty-prototype";
                            p.clear();
                        }
                        _ => {
                            tag = "none";
                        }
                    }
                    cover.hit(&format!("hostile:prototype:{}", tag));
                    // points must be regenerated to match the new prototype shape
                    let n = pc.points.len();
                    pc.points = (0..n).map(|_| gen_point(r, &pc.prototype, true)).collect();
                }
                // hostile values
                if !pc.prototype.is_empty() && r.chance(2, 3) {
                    let n = pc.points.len();
                    let mut out = Vec::new();
                    for (i, pt) in pc.points.drain(..).enumerate() {
                        if r.chance(1, 4) || (i == n / 2) {
                            out.push(bad_point(r, &pc.prototype, &pt, cover));
                        }
                        out.push(pt);
                    }
                    if out.is_empty() {
                        let pt = gen_point(r, &pc.prototype, true);
                        out.push(bad_point(r, &pc.prototype, &pt, cover));
                        out.push(pt);
                    }
                    pc.points = out;
                }
                if r.chance(1, 8) {
                    pc.abandon = true;
                    cover.hit("hostile:abandon:pointcloud");
                }
                new_items.push(Item::Pc(pc));
            }
            Item::Ext(e) => {
                if r.chance(1, 3) {
                    let bad = r.pick(&["", "xml", "xmlns", "Xml-a", "a b", "ä", "a.b", "1abc", "-x", "a", "a"]).to_string();
                    cover.hit("hostile:extension-name");
                    new_items.push(Item::Ext(Extension { namespace: bad, url: format!("{}/other", e.url) }));
                }
                if r.chance(1, 4) {
                    cover.hit("hostile:extension-duplicate");
                    new_items.push(Item::Ext(e.clone()));
                }
                if r.chance(1, 4) {
                    // the same prefix again with another URL: must be rejected (one prefix, one namespace)
                    cover.hit("hostile:extension-duplicate-other-url");
                    new_items.push(Item::Ext(Extension { namespace: e.namespace.clone(), url: format!("{}/v2", e.url) }));
                }
                // the original registration comes first: move it in front of its duplicates
                let pos = new_items.iter().position(|it| matches!(it, Item::Ext(x) if x.namespace == e.namespace)).unwrap_or(new_items.len());
                new_items.insert(pos, Item::Ext(e));
            }
            Item::Img(mut im) => {
                if r.chance(1, 6) {
                    im.visual = None;
                    im.proj = None;
                    im.second_proj = None;
                    cover.hit("hostile:image-empty");
                }
                if im.abandon {
                    cover.hit("hostile:abandon:image");
                }
                new_items.push(Item::Img(im));
            }
            other => new_items.push(other),
        }
    }
    scene.items = new_items;
}

fn scene_first_ext(items: &[Item]) -> Option<String> {
    items.iter().find_map(|i| if let Item::Ext(e) = i { if name_ok(&e.namespace) { Some(e.namespace.clone()) } else { None } } else { None })
}

/// A value vector that does not fit the prototype: wrong arity, wrong type, out-of-range integer.
pub fn bad_point(r: &mut Rng, proto: &[Record], good: &RawValues, cover: &mut crate::Cover) -> RawValues {
    let mut v = good.clone();
    if v.len() != proto.len() {
        return v;
    }
    let ints: Vec<usize> = proto
        .iter()
        .enumerate()
        .filter(|(_, x)| match &x.data_type {
            RecordDataType::Integer { min, max } | RecordDataType::ScaledInteger { min, max, .. } => *min > i64::MIN || *max < i64::MAX,
            _ => false,
        })
        .map(|(i, _)| i)
        .collect();
    let choice = r.usize(6);
    match choice {
        0 => {
            cover.hit("hostile:value:arity-short");
            v.pop();
        }
        1 => {
            cover.hit("hostile:value:arity-long");
            v.push(RecordValue::Integer(0));
        }
        2 | 3 if !ints.is_empty() => {
            let i = *r.pick(&ints);
            let (min, max, scaled) = match &proto[i].data_type {
                RecordDataType::Integer { min, max } => (*min, *max, false),
                RecordDataType::ScaledInteger { min, max, .. } => (*min, *max, true),
                _ => (0, 0, false),
            };
            let mut cands: Vec<i64> = Vec::new();
            if max < i64::MAX {
                cands.push(max + 1);
                cands.push(i64::MAX);
                cands.push(max.saturating_add(255));
                cands.push(max.saturating_mul(2).saturating_add(1));
            }
            if min > i64::MIN {
                cands.push(min - 1);
                cands.push(i64::MIN);
                cands.push(min.saturating_sub(256));
            }
            let bad = *r.pick(&cands);
            // bit phase of this record inside its own stream decides whether neighbours get hurt
            let w = dt_bits(&proto[i].data_type);
            cover.hit(&format!("hostile:value:out-of-range:w{}", w));
            v[i] = if scaled { RecordValue::ScaledInteger(bad) } else { RecordValue::Integer(bad) };
        }
        _ => {
            let i = r.usize(proto.len());
            cover.hit(&format!("hostile:value:type-mismatch:pos{}", if i == 0 { "first" } else if i + 1 == proto.len() { "last" } else { "middle" }));
            v[i] = match &v[i] {
                RecordValue::Single(_) => RecordValue::Double(1.0),
                RecordValue::Double(_) => RecordValue::Single(1.0),
                RecordValue::Integer(x) => RecordValue::ScaledInteger(*x),
                RecordValue::ScaledInteger(x) => RecordValue::Integer(*x),
            };
        }
    }
    v
}

/// C14: replace the random points by designed sequences (distinct extremes in different points)
fn bounds_points(r: &mut Rng, pc: &mut PcSpec, cover: &mut crate::Cover) {
    let n = *r.pick(&[0usize, 1, 2, 5, 12, 40]);
    let shape = r.usize(6);
    cover.hit(&format!("c14:sequence:{}:n{}", ["random", "constant", "increasing", "decreasing", "extremes-apart", "signmix"][shape], n));
    let proto = pc.prototype.clone();
    let mut pts: Vec<RawValues> = (0..n).map(|_| gen_point(r, &proto, false)).collect();
    for (ri, rec) in proto.iter().enumerate() {
        let vals: Vec<RecordValue> = match shape {
            1 => {
                let v = gen_value(r, &rec.data_type, false);
                (0..n).map(|_| v.clone()).collect()
            }
            2 | 3 => {
                let mut vs: Vec<RecordValue> = (0..n).map(|_| gen_value(r, &rec.data_type, false)).collect();
                vs.sort_by(|a, b| model_f64(a, &rec.data_type).partial_cmp(&model_f64(b, &rec.data_type)).unwrap_or(std::cmp::Ordering::Equal));
                if shape == 3 {
                    vs.reverse();
                }
                vs
            }
            4 => {
                // min and max attained at positions that differ per record
                let mut vs: Vec<RecordValue> = (0..n).map(|_| gen_value(r, &rec.data_type, false)).collect();
                if n >= 2 {
                    vs.sort_by(|a, b| model_f64(a, &rec.data_type).partial_cmp(&model_f64(b, &rec.data_type)).unwrap_or(std::cmp::Ordering::Equal));
                    let lo = vs.remove(0);
                    let hi = vs.pop().unwrap_or(lo.clone());
                    r.shuffle(&mut vs);
                    let a = (ri * 3 + 1) % n;
                    vs.insert(a.min(vs.len()), lo);
                    let b = (ri * 5 + 2) % n;
                    vs.insert(b.min(vs.len()), hi);
                }
                vs
            }
            5 => (0..n)
                .map(|i| match &rec.data_type {
                    RecordDataType::Single { min: None, max: None } => RecordValue::Single(*r.pick(&[0.0f32, -0.0, 1.0, -1.0, f32::INFINITY, f32::NEG_INFINITY, f32::MAX, f32::MIN, 1e-40])),
                    RecordDataType::Double { min: None, max: None } => RecordValue::Double(*r.pick(&[0.0f64, -0.0, 1.0, -1.0, f64::INFINITY, f64::NEG_INFINITY, f64::MAX, f64::MIN, 1e-310])),
                    d => {
                        let _ = i;
                        gen_value(r, d, false)
                    }
                })
                .collect(),
            _ => continue,
        };
        for (p, v) in pts.iter_mut().zip(vals.into_iter()) {
            p[ri] = v;
        }
    }
    // interleave vectors that must be rejected; a rejected point must not move the bounds
    if n > 0 && r.chance(1, 2) {
        let mut out = Vec::new();
        for pt in pts.into_iter() {
            if r.chance(1, 3) {
                // wrong type at the LAST index, extreme coordinates before it
                let mut bad: RawValues = proto
                    .iter()
                    .map(|x| match &x.data_type {
                        RecordDataType::Single { .. } => RecordValue::Single(3.0e38),
                        RecordDataType::Double { .. } => RecordValue::Double(-1.7e308),
                        RecordDataType::ScaledInteger { max, .. } => RecordValue::ScaledInteger(*max),
                        RecordDataType::Integer { max, .. } => RecordValue::Integer(*max),
                    })
                    .collect();
                let last = bad.len() - 1;
                bad[last] = match &bad[last] {
                    RecordValue::Single(_) => RecordValue::Double(0.0),
                    RecordValue::Double(_) => RecordValue::Single(0.0),
                    RecordValue::Integer(x) => RecordValue::ScaledInteger(*x),
                    RecordValue::ScaledInteger(x) => RecordValue::Integer(*x),
                };
                cover.hit("c14:rejected-in-between");
                out.push(bad);
            }
            out.push(pt);
        }
        pts = out;
    }
    pc.points = pts;
}

pub fn run(a: &Args, rep: &mut Reporter) {
    let mode = a.get("mode").unwrap_or("c01").to_string();
    let primary: &'static str = match mode.as_str() {
        "c01" => "C01",
        "c04" => "C04",
        "c06" => "C06",
        "c10" => "C10",
        "c14" => "C14",
        "c02" => "C02",
        "c12w" => "C12",
        "c18" => "C18",
        _ => "C01",
    };
    let filesdir = a.get("filesdir").map(|s| s.to_string());
    let mut stats = RbStats::default();
    let thorough = a.thorough();
    let (done, reason) = crate::run_cases(a, rep, |idx, cs, rep| {
        let mut r = Rng::new(cs);
        let k = knobs_for(&mode, idx, a, &mut r);
        let mut cover = std::mem::take(&mut rep.cover);
        let mut scene = gen_scene(&mut r, &k, &mut cover);
        if mode == "c06" && thorough {
            // exhaustive blob length sweep 0..2100 riding on the case index
            let len = (idx % 2101) as usize;
            scene.items.insert(0, Item::Blob(gen_blob_data(&mut r, len, 9)));
        }
        if mode == "c10" {
            hostile_mutate(&mut scene, &mut r, &mut cover);
        }
        if mode == "c01" && idx % 157 == 11 {
            // a legal but very wide prototype: hundreds of narrow extension attributes. Every byte stream then
            // carries a few left-over bits from packet to packet, and one point still fits a packet many times.
            let ext = Extension { namespace: "wide".into(), url: "http://www.example.com/wide".into() };
            if !scene.items.iter().any(|it| matches!(it, Item::Ext(e) if e.namespace == ext.namespace || e.url == ext.url)) {
                scene.items.insert(0, Item::Ext(ext.clone()));
                let n_rec = *r.pick(&[300usize, 600, 900, 1200, 2000, 3000]);
                let fixed_w = if r.bool() { Some(1 + r.usize(7)) } else { None };
                let mut done = false;
                for it in scene.items.iter_mut() {
                    if let Item::Pc(pc) = it {
                        if done {
                            break;
                        }
                        for i in 0..n_rec {
                            let w = fixed_w.unwrap_or(1 + r.usize(11));
                            let min = r.range(-5, 5);
                            pc.prototype.push(Record { name: RecordName::Unknown { namespace: "wide".into(), name: format!("a{}", i) }, data_type: RecordDataType::Integer { min, max: min + ((1i64 << w) - 1) } });
                        }
                        if let Some(ppp) = points_per_packet(&pc.prototype) {
                            if ppp >= 1 {
                                let n_pts = (ppp * (2 + r.usize(3)) + r.usize(ppp.max(2))).min(1500);
                                let proto = pc.prototype.clone();
                                pc.points = (0..n_pts).map(|_| gen_point(&mut r, &proto, true)).collect();
                                cover.hit(&format!("wide-prototype:{}:{}", n_rec, match fixed_w { Some(w) => format!("w{}", w), None => "mixed".into() }));
                                cover.hit(&format!("wide-prototype:packets:{}", ((n_pts + ppp - 1) / ppp).min(6)));
                                done = true;
                            }
                        }
                    }
                }
            }
        }
        if mode == "c12w" {
            let w = (idx % 65) as usize;
            let vset = (idx / 65) % 5;
            let mut any = false;
            for it in scene.items.iter_mut() {
                if let Item::Pc(pc) = it {
                    if pc.points.len() < 9 {
                        let proto = pc.prototype.clone();
                        pc.points = (0..(9 + r.usize(40))).map(|_| gen_point(&mut r, &proto, true)).collect();
                    }
                    for (ri, rec) in pc.prototype.clone().iter().enumerate() {
                        let (min, max, scaled) = match &rec.data_type {
                            RecordDataType::Integer { min, max } => (*min, *max, false),
                            RecordDataType::ScaledInteger { min, max, .. } => (*min, *max, true),
                            _ => continue,
                        };
                        if dt_bits(&rec.data_type) != w {
                            continue;
                        }
                        any = true;
                        let range = (max as i128 - min as i128) as u128;
                        for (pi, p) in pc.points.iter_mut().enumerate() {
                            let off: u128 = match vset {
                                0 => 0,
                                1 => range,
                                2 => if pi % 2 == 0 { 0 } else { range },
                                3 => {
                                    // walking one (clipped to the range)
                                    let b = 1u128 << (pi % w.max(1));
                                    if b <= range { b } else { range }
                                }
                                _ => (r.u64() as u128) % (range + 1),
                            };
                            let v = (min as i128 + off as i128) as i64;
                            p[ri] = if scaled { RecordValue::ScaledInteger(v) } else { RecordValue::Integer(v) };
                            cover.hit_num("width_phase", (w as u64) * 8 + ((pi * w) % 8) as u64);
                        }
                    }
                }
            }
            if any {
                cover.hit_num("grid_cell", idx % 325);
                cover.hit(&format!("valueset:{}", ["all-min", "all-max", "alternating", "walking-one", "random"][vset as usize]));
            }
        }
        if (mode == "c12w" && idx % 401 == 7) || (mode == "c01" && idx % 1201 == 13) {
            // points of very few bits: far more than 2^16 values of one byte stream end up in a single packet
            let w = 1 + (idx / 401 % 7) as usize;
            let n = *r.pick(&[65535usize, 65536, 65537, 70001, 131072, 131073, 200000]);
            let mut proto = vec![
                Record { name: RecordName::CartesianX, data_type: RecordDataType::Integer { min: 4, max: 4 } },
                Record { name: RecordName::CartesianY, data_type: RecordDataType::Integer { min: -1, max: -1 } },
                Record { name: RecordName::CartesianZ, data_type: RecordDataType::ScaledInteger { min: 0, max: 0, scale: 0.5, offset: 1.0 } },
                Record { name: RecordName::RowIndex, data_type: RecordDataType::Integer { min: -3, max: -3 + ((1i64 << w) - 1) } },
            ];
            if w <= 5 && r.bool() {
                proto.push(Record { name: RecordName::Intensity, data_type: RecordDataType::ScaledInteger { min: 10, max: 13, scale: 0.25, offset: 0.0 } });
            }
            let points = (0..n).map(|_| gen_point(&mut r, &proto, false)).collect();
            let mut pc = gen_pc(&mut r, &Knobs::base(), &[], &mut cover);
            pc.prototype = proto;
            pc.points = points;
            pc.meta = PcMeta::default();
            scene.items = vec![Item::Pc(pc)];
            cover.hit(&format!("tiny-points:w{}:n{}", w, n));
        }
        if mode == "c14" {
            for it in scene.items.iter_mut() {
                if let Item::Pc(pc) = it {
                    bounds_points(&mut r, pc, &mut cover);
                }
            }
        }
        if mode == "c06" && idx % 3 == 1 {
            scene.failing_sources = true;
            cover.hit("blob-source:fails-half-way-then-retried");
        }
        let judge = if mode == "c10" { Judge::Hostile } else { Judge::Conforming };
        if mode == "c02" && idx % 4 == 1 {
            // aim the END of the XML at / around the end of a page payload (the header's file length and the
            // final page are computed there): a first run tells where the XML ends, the coordinate metadata
            // string is then lengthened so that it ends at the chosen residue
            let base = scene.coord.clone().flatten().unwrap_or_default();
            scene.coord = Some(Some(base.clone()));
            let d0 = Dev::empty();
            let run0 = run_scene(&scene, d0.clone(), judge);
            if run0.finalized {
                let b = d0.bytes();
                if b.len() >= 48 {
                    let xo = u64::from_le_bytes(b[24..32].try_into().unwrap_or([0; 8]));
                    let xl = u64::from_le_bytes(b[32..40].try_into().unwrap_or([0; 8]));
                    let end = crate::crc::phys_to_log(xo) + xl;
                    let target = [0u64, 1019, 1, 1016, 4][((idx / 4) % 5) as usize];
                    let delta = (target + 1020 - end % 1020) % 1020;
                    let mut s2 = base;
                    for _ in 0..delta {
                        s2.push('x');
                    }
                    scene.coord = Some(Some(s2));
                    cover.hit(&format!("xml-end-residue-target:{}", target));
                }
            }
        }
        if mode == "c02" && idx % 4 == 3 {
            // rejected points in between: what is published (record count) must still match what is stored
            for it in scene.items.iter_mut() {
                if let Item::Pc(pc) = it {
                    let mut out = Vec::new();
                    for pt in pc.points.drain(..) {
                        if r.chance(1, 3) {
                            out.push(bad_point(&mut r, &pc.prototype, &pt, &mut cover));
                        }
                        out.push(pt);
                    }
                    pc.points = out;
                }
            }
        }
        let mut dev = Dev::empty();
        let mut prefill: Option<Vec<u8>> = None;
        if mode == "c10" && idx % 53 == 17 {
            // a device that already holds something (1 byte ... a whole old file): the documented answer is an
            // error from E57Writer::new that leaves the device alone; anything else must still read back
            let n = *r.pick(&[1usize, 47, 48, 1023, 1024, 1025, 4096, 10_000]);
            let b = r.bytes(n);
            dev = Dev::new(b.clone());
            prefill = Some(b);
            cover.hit("hostile:device-not-empty");
        }
        if mode == "c10" && idx % 59 == 23 {
            scene.guid = String::new();
            cover.hit("hostile:file-guid-empty");
        }
        // one program in eight runs over a device that shortens every transfer (reads during page
        // reloads and writes): content and file must not depend on it
        let chunked = idx % 8 == 5;
        if chunked {
            use crate::dev::Chunking;
            let rc = match r.usize(3) {
                0 => Chunking::One,
                1 => Chunking::Small(1 + r.usize(600)),
                _ => Chunking::Rand(Rng::new(r.u64())),
            };
            let wc = match r.usize(3) {
                0 => Chunking::Alt(false),
                1 => Chunking::Small(1 + r.usize(1500)),
                _ => Chunking::Rand(Rng::new(r.u64())),
            };
            dev.set_chunking(rc, wc);
            cover.hit("device:short-transfers");
        }
        let run = run_scene(&scene, dev.clone(), judge);
        rep.stat("programs", 1);
        rep.stat("writer_calls", run.calls.len() as u64);
        for c in &run.calls {
            if !c.ok && c.panic.is_none() {
                rep.stat("calls_returned_err", 1);
                if mode == "c10" {
                    cover.hit(&format!("rejected:{}", c.op.split('(').next().unwrap_or(&c.op)));
                }
            }
        }
        rep.viols(idx, &run.violations);
        let bytes = dev.bytes();
        if let Some(pre) = &prefill {
            if !run.new_ok {
                cover.hit("hostile:device-not-empty:rejected");
                if &bytes != pre {
                    rep.violation("C10", "rejected-device-modified", idx, &format!("E57Writer::new refused a device holding {} bytes but changed it (now {} bytes)", pre.len(), bytes.len()));
                }
            }
        }
        if run.finalized {
            rep.stat("finalized", 1);
            let n_pts: usize = run.pcs.iter().map(|p| p.points.len()).sum();
            let nontrivial = match mode.as_str() {
                "c06" => !run.blobs.is_empty() || !run.imgs.is_empty(),
                "c04" => true,
                "c10" => true,
                _ => !run.pcs.is_empty() && n_pts > 0,
            };
            if nontrivial {
                rep.stat("nontrivial_programs", 1);
                // identity of the whole program: item kinds, prototypes, point counts, blob lengths
                let mut id = String::new();
                for it in &scene.items {
                    match it {
                        Item::Blob(b) => id.push_str(&format!("B{};", b.len())),
                        Item::Pc(p) => id.push_str(&format!("P{}#{};", crate::obs::proto_str(&p.prototype), p.points.len())),
                        Item::Img(i) => id.push_str(&format!("I{}{};", i.visual.is_some(), i.proj.is_some())),
                        Item::Ext(e) => id.push_str(&format!("E{};", e.namespace)),
                    }
                }
                for c in &run.calls {
                    if !c.ok {
                        id.push_str(&c.op);
                    }
                }
                cover.hit_num("program_shape", crate::rng::hash_str(&id) >> 4);
            }
            for pc in &run.pcs {
                let shape = format!("{}", pc.prototype.len());
                cover.hit_num("proto_len", pc.prototype.len() as u64);
                let _ = shape;
                for rec in &pc.prototype {
                    match &rec.data_type {
                        RecordDataType::Integer { .. } | RecordDataType::ScaledInteger { .. } => cover.hit_num("int_width", dt_bits(&rec.data_type) as u64),
                        RecordDataType::Single { .. } => cover.hit("type:single"),
                        RecordDataType::Double { .. } => cover.hit("type:double"),
                    }
                }
                if let Some(ppp) = points_per_packet(&pc.prototype) {
                    let packets = if ppp == 0 { 0 } else { (pc.points.len() + ppp - 1) / ppp };
                    cover.hit(&format!("packets:{}", packets.min(5)));
                }
                cover.hit_num("shape", crate::rng::hash_str(&crate::obs::proto_str(&pc.prototype)) % 1_000_000_007);
            }
            let mut ctx = Ctx { primary, hostile: mode == "c10", cover: &mut cover, stats: &mut stats };
            let mut vs = verify_readback(&bytes, &scene, &run, &mut ctx);
            if mode == "c12w" {
                // the files of this mode exist for the bit-packing grid: values the reader gets wrong here are C12's
                for v in vs.iter_mut() {
                    if v.prop == "C01" {
                        v.prop = "C12";
                    }
                }
            }
            if mode == "c18" {
                // everything the read-back oracle finds in this mode is about extension attributes
                // disturbing (or being disturbed by) standard content
                for v in vs.iter_mut() {
                    v.prop = "C18";
                }
                for pc in &run.pcs {
                    for rec in &pc.prototype {
                        if let RecordName::Unknown { name, .. } = &rec.name {
                            cover.hit(if ["cartesianX", "intensity", "colorRed", "rowIndex", "timeStamp", "guid", "points", "prototype"].contains(&name.as_str()) { "ext-attr:standard-name" } else { "ext-attr:other-name" });
                        }
                    }
                }
            }
            rep.viols(idx, &vs);
            // section start residues actually reached (from the reader's descriptors)
            if let Ok(Ok(rd)) = guarded(|| E57Reader::new(std::io::Cursor::new(bytes.clone()))) {
                for pc in rd.pointclouds() {
                    cover.hit_num("section_start_mod1020", crate::crc::phys_to_log(pc.file_offset) % 1020);
                }
                cover.hit_num("xml_start_mod1020", crate::crc::phys_to_log(rd.header().phys_xml_offset) % 1020);
                cover.hit_num("xml_end_mod1020", (crate::crc::phys_to_log(rd.header().phys_xml_offset) + rd.header().xml_length) % 1020);
            }
            if let Some(dir) = &filesdir {
                let name = format!("{}/case_{:08}", dir, idx);
                let _ = std::fs::write(format!("{}.e57", name), &bytes);
                let _ = std::fs::write(format!("{}.intent.json", name), intent_json(&scene, &run).dump());
                rep.stat("files_exported", 1);
            }
            if rep.samples < rep.max_samples && nontrivial && (idx % 5 == 1 || mode != "c01") {
                let s = J::obj()
                    .set("case", J::i(idx as i128))
                    .set("calls", J::Arr(run.calls.iter().take(24).map(|c| J::s(format!("{}{}", c.op, if c.ok { "" } else { " -> Err" }))).collect()))
                    .set("file_bytes", J::u(bytes.len()))
                    .set("pointclouds", J::Arr(run.pcs.iter().map(|p| J::obj().set("prototype", J::s(crate::obs::proto_str(&p.prototype))).set("points", J::u(p.points.len()))).collect()))
                    .set("blobs", J::Arr(run.blobs.iter().map(|(b, _)| J::s(format!("{}+{}", b.offset, b.length))).collect()))
                    .set("images", J::u(run.imgs.len()));
                rep.sample(s);
            }
        } else {
            rep.stat("not_finalized", 1);
        }
        rep.cover = cover;
    });
    rep.stat("rb_opened", stats.opened);
    rep.stat("rb_pcs", stats.pcs);
    rep.stat("rb_points", stats.points);
    rep.stat("rb_values", stats.values);
    rep.stat("rb_fields", stats.fields);
    rep.stat("rb_blobs", stats.blobs);
    rep.stat("rb_blob_bytes", stats.blob_bytes);
    rep.stat("rb_imgs", stats.imgs);
    rep.stat("rb_bounds_checked", stats.bounds_checked);
    rep.stat("rb_limits_checked", stats.limits_checked);
    rep.finish(done, reason);
}
