//! Minimal JSON value + writer (the harness only ever *writes* JSON; Python reads it).

use std::fmt::Write;

#[derive(Clone, Debug)]
pub enum J {
    Null,
    Bool(bool),
    Int(i128),
    Num(f64),
    Str(String),
    Arr(Vec<J>),
    Obj(Vec<(String, J)>),
}

impl J {
    pub fn obj() -> J {
        J::Obj(Vec::new())
    }
    pub fn set(mut self, k: &str, v: J) -> J {
        if let J::Obj(ref mut o) = self {
            o.push((k.to_string(), v));
        }
        self
    }
    pub fn put(&mut self, k: &str, v: J) {
        if let J::Obj(ref mut o) = self {
            o.push((k.to_string(), v));
        }
    }
    pub fn s<T: AsRef<str>>(s: T) -> J {
        J::Str(s.as_ref().to_string())
    }
    pub fn i<T: Into<i128>>(v: T) -> J {
        J::Int(v.into())
    }
    pub fn u(v: usize) -> J {
        J::Int(v as i128)
    }
    pub fn opt<T>(v: &Option<T>, f: impl Fn(&T) -> J) -> J {
        match v {
            Some(x) => f(x),
            None => J::Null,
        }
    }
    /// exact f64 as bit pattern string
    pub fn f64b(v: f64) -> J {
        J::Str(format!("f64:{:016x}", v.to_bits()))
    }
    pub fn f32b(v: f32) -> J {
        J::Str(format!("f32:{:08x}", v.to_bits()))
    }
    pub fn hex(b: &[u8]) -> J {
        let mut s = String::with_capacity(b.len() * 2);
        for x in b {
            let _ = write!(s, "{:02x}", x);
        }
        J::Str(s)
    }
    pub fn dump(&self) -> String {
        let mut s = String::new();
        self.write(&mut s);
        s
    }
    fn write(&self, out: &mut String) {
        match self {
            J::Null => out.push_str("null"),
            J::Bool(b) => out.push_str(if *b { "true" } else { "false" }),
            J::Int(i) => {
                let _ = write!(out, "{}", i);
            }
            J::Num(f) => {
                if f.is_finite() {
                    let _ = write!(out, "{}", f);
                } else {
                    let _ = write!(out, "\"{}\"", f);
                }
            }
            J::Str(s) => esc(s, out),
            J::Arr(a) => {
                out.push('[');
                for (i, x) in a.iter().enumerate() {
                    if i > 0 {
                        out.push(',');
                    }
                    x.write(out);
                }
                out.push(']');
            }
            J::Obj(o) => {
                out.push('{');
                for (i, (k, v)) in o.iter().enumerate() {
                    if i > 0 {
                        out.push(',');
                    }
                    esc(k, out);
                    out.push(':');
                    v.write(out);
                }
                out.push('}');
            }
        }
    }
}

fn esc(s: &str, out: &mut String) {
    out.push('"');
    for c in s.chars() {
        match c {
            '"' => out.push_str("\\\""),
            '\\' => out.push_str("\\\\"),
            '\n' => out.push_str("\\n"),
            '\r' => out.push_str("\\r"),
            '\t' => out.push_str("\\t"),
            c if (c as u32) < 0x20 => {
                let _ = write!(out, "\\u{:04x}", c as u32);
            }
            c if (c as u32) > 0xFFFF => {
                let v = c as u32 - 0x10000;
                let _ = write!(out, "\\u{:04x}\\u{:04x}", 0xD800 + (v >> 10), 0xDC00 + (v & 0x3FF));
            }
            c if (c as u32) >= 0x7F => {
                let _ = write!(out, "\\u{:04x}", c as u32);
            }
            c => out.push(c),
        }
    }
    out.push('"');
}

pub fn fnv64(data: &[u8]) -> u64 {
    let mut h = 0xcbf29ce484222325u64;
    for b in data {
        h ^= *b as u64;
        h = h.wrapping_mul(0x100000001b3);
    }
    h
}
