//! G-PROGRAM: generation of writer programs ("scenes"), their execution against the real
//! writer over an M-DEV device, and the *intent/accepted model* the read-back oracles use.

use crate::dev::Dev;
use crate::obs::*;
use crate::rng::Rng;
use e57::*;
use std::io::{Read, Seek, Write};
use std::panic::{catch_unwind, AssertUnwindSafe};

// ------------------------------------------------------------------ generator knobs

#[derive(Clone, Debug)]
pub struct Knobs {
    pub max_items: usize,      // sections per program
    pub hostile: bool,         // C10: invalid prototypes / values / abandoned writers
    pub meta_heavy: bool,      // C04: all setters, wild strings, wild floats
    pub blob_heavy: bool,      // C06
    pub bounds_focus: bool,    // C14: non-NaN coordinates, all groups
    pub wild_strings: bool,    // strings from all XML classes (else plain ASCII)
    pub wild_ext: bool,        // extension names/urls over the whole accepted alphabet
    pub big_points: bool,      // allow several packets
    pub full_packets: bool,    // narrow prototypes with enough points to fill whole data packets (up to 65 k points each)
    pub max_records: usize,    // prototype length cap
    pub residue_sweep: Option<u32>, // force a leading blob so that the next section starts at this logical residue mod 1020
    pub width_focus: Option<usize>, // force an integer record of this bit width (C12)
    pub nan_ok: bool,
    pub ext_std_names: bool, // C18: extension attributes named like standard ones
}

impl Knobs {
    pub fn base() -> Knobs {
        Knobs {
            max_items: 4,
            hostile: false,
            meta_heavy: false,
            blob_heavy: false,
            bounds_focus: false,
            wild_strings: false,
            wild_ext: false,
            big_points: true,
            full_packets: false,
            max_records: 24,
            residue_sweep: None,
            width_focus: None,
            nan_ok: true,
            ext_std_names: false,
        }
    }
}

// ------------------------------------------------------------------ scene description

#[derive(Clone, Debug, Default)]
pub struct PcMeta {
    pub name: Option<String>,
    pub description: Option<String>,
    pub original_guids: Option<Vec<String>>,
    pub transform: Option<Transform>,
    pub acq_start: Option<DateTime>,
    pub acq_end: Option<DateTime>,
    pub sensor_vendor: Option<String>,
    pub sensor_model: Option<String>,
    pub sensor_serial: Option<String>,
    pub sensor_hw: Option<String>,
    pub sensor_sw: Option<String>,
    pub sensor_fw: Option<String>,
    pub temperature: Option<f64>,
    pub humidity: Option<f64>,
    pub pressure: Option<f64>,
    /// None: setter not called. Some(x): set_intensity_limits(x) called.
    pub intensity_limits: Option<Option<IntensityLimits>>,
    pub color_limits: Option<Option<ColorLimits>>,
}

#[derive(Clone, Debug)]
pub struct PcSpec {
    pub guid: String,
    pub prototype: Vec<Record>,
    pub points: Vec<RawValues>,
    pub meta: PcMeta,
    pub abandon: bool,
}

#[derive(Clone, Debug)]
pub struct RepSpec {
    pub png: bool,
    pub data: Vec<u8>,
    pub mask: Option<Vec<u8>>,
    pub width: u32,
    pub height: u32,
    pub f: [f64; 5], // representation specific floats
}

#[derive(Clone, Debug)]
pub enum ProjKind {
    Pinhole,
    Spherical,
    Cylindrical,
}

#[derive(Clone, Debug, Default)]
pub struct ImgMeta {
    pub name: Option<String>,
    pub description: Option<String>,
    pub pointcloud_guid: Option<String>,
    pub transform: Option<Transform>,
    pub acquisition: Option<DateTime>,
    pub sensor_vendor: Option<String>,
    pub sensor_model: Option<String>,
    pub sensor_serial: Option<String>,
}

#[derive(Clone, Debug)]
pub struct ImgSpec {
    pub guid: String,
    pub visual: Option<RepSpec>,
    pub proj: Option<(ProjKind, RepSpec)>,
    pub second_proj: Option<(ProjKind, RepSpec)>, // must be rejected
    pub meta: ImgMeta,
    pub abandon: bool,
}

#[derive(Clone, Debug)]
pub enum Item {
    Blob(Vec<u8>),
    Pc(PcSpec),
    Img(ImgSpec),
    Ext(Extension),
}

#[derive(Clone, Debug)]
pub enum XmlMode {
    Plain,
    Identity,
    AppendComment,
    /// the transformer hands back XML without the final line break (and one with trailing blanks)
    TrimEnd,
    TrailingBlanks,
}

#[derive(Clone, Debug)]
pub struct Scene {
    pub guid: String,
    pub coord: Option<Option<String>>,
    pub creation: Option<Option<DateTime>>,
    pub items: Vec<Item>,
    pub xml_mode: XmlMode,
    /// drop the top-level writer without calling finalize (C15)
    pub no_finalize: bool,
    /// stop the program at the first call that returns Err (fault runs, C16)
    pub stop_on_err: bool,
    /// a failed PointCloudWriter::finalize does not end the program: the caller ignores the error and goes on (C16 stage d)
    pub carry_on: bool,
    /// selects how the data sources handed to add_blob / add_* deliver their bytes (whole, in pieces ...)
    pub src_salt: u8,
    /// some blobs are first offered through a source that fails half-way (the call must fail), then added again
    pub failing_sources: bool,
}

/// A data source for blobs, images and masks that delivers its bytes the way pipes, decoders and chained
/// readers do: in pieces, a legal short read being no end of data. The pattern is a function of the length
/// and the scene's salt, so that the same program is repeatable and a different salt gives the same content
/// through a differently behaving reader.
pub struct PieceReader<'a> {
    data: &'a [u8],
    pos: usize,
    mode: u8,
    calls: u32,
    fail_at: Option<usize>,
}
impl<'a> PieceReader<'a> {
    pub fn new(data: &'a [u8], salt: u8) -> Self {
        PieceReader { data, pos: 0, mode: ((data.len() as u64 + salt as u64 * 3) % 5) as u8, calls: 0, fail_at: None }
    }
    /// delivers `k` bytes, then reports an I/O error
    pub fn failing(data: &'a [u8], salt: u8, k: usize) -> Self {
        let mut p = Self::new(data, salt);
        p.fail_at = Some(k);
        p
    }
}
impl<'a> Read for PieceReader<'a> {
    fn read(&mut self, buf: &mut [u8]) -> std::io::Result<usize> {
        self.calls += 1;
        let mut left = self.data.len() - self.pos;
        if let Some(k) = self.fail_at {
            if self.pos >= k {
                return Err(std::io::Error::new(std::io::ErrorKind::Other, "data source failed"));
            }
            left = left.min(k - self.pos);
        }
        let want = buf.len().min(left);
        let n = match self.mode {
            0 => want,                                              // whole
            1 => want.min(if self.calls == 1 { 10 } else { usize::MAX }), // a short first piece (sniffed signature)
            2 => want.min(7),                                       // tiny pieces
            3 => want.min(if self.calls % 2 == 1 { 1 } else { 4096 }),
            _ => want.min(3000),
        };
        buf[..n].copy_from_slice(&self.data[self.pos..self.pos + n]);
        self.pos += n;
        Ok(n)
    }
}

// ------------------------------------------------------------------ string / number generators

pub const STRING_CLASSES: &[&str] = &[
    "ascii", "markup", "cdata_end", "ws_only", "empty", "bmp", "astral", "long", "mixed", "newlines", "edge_chars", "html",
];

pub fn gen_string_class(r: &mut Rng, class: &str) -> String {
    match class {
        "ascii" => {
            let n = 1 + r.usize(24);
            (0..n).map(|_| (0x20u8 + r.usize(0x5f) as u8) as char).filter(|c| !"<>&]".contains(*c)).collect::<String>()
        }
        "markup" => {
            let pieces = ["<", ">", "&", "'", "\"", "&amp;", "<a>", "</guid>", "<!--", "-->", "<?x?>", "&#10;", "a", " ", "<![CDATA["];
            let n = 1 + r.usize(8);
            (0..n).map(|_| *r.pick(&pieces)).collect()
        }
        "cdata_end" => {
            let pieces = ["]]>", "]]", "]", ">", "a", "]]>]]>", " ", "]]]>"];
            let n = 1 + r.usize(5);
            let mut s: String = (0..n).map(|_| *r.pick(&pieces)).collect();
            if !s.contains("]]>") {
                let at = r.usize(s.len() + 1);
                let at = (0..=at).rev().find(|i| s.is_char_boundary(*i)).unwrap_or(0);
                s.insert_str(at, "]]>");
            }
            s
        }
        "ws_only" => {
            let pieces = [" ", "\t", "\n", "  "];
            let n = 1 + r.usize(5);
            (0..n).map(|_| *r.pick(&pieces)).collect()
        }
        "empty" => String::new(),
        "bmp" => {
            let n = 1 + r.usize(12);
            (0..n)
                .map(|_| loop {
                    let c = 0xA0 + r.below(0xFFFD - 0xA0) as u32;
                    if (0xD800..0xE000).contains(&c) {
                        continue;
                    }
                    if let Some(ch) = char::from_u32(c) {
                        break ch;
                    }
                })
                .collect()
        }
        "astral" => {
            let n = 1 + r.usize(6);
            (0..n).map(|_| char::from_u32(0x10000 + r.below(0x100000) as u32).unwrap_or('a')).collect()
        }
        "long" => {
            let n = 2000 + r.usize(6000);
            (0..n).map(|i| (b'a' + (i % 26) as u8) as char).collect()
        }
        "html" => {
            // a markup-heavy fragment (as pasted into descriptions): hundreds of unclosed tags after a '>'
            let n = *r.pick(&[40usize, 120, 300, 700]);
            let tag = *r.pick(&["<li>", "<br>", "<p>", "<td>x"]);
            let mut s = String::from("<ul>");
            for i in 0..n {
                s.push_str(tag);
                if i % 50 == 0 {
                    s.push_str("item");
                }
            }
            s
        }
        "newlines" => {
            let pieces = ["\n", "a", "\n\n", " \n ", "b\tc"];
            let n = 1 + r.usize(6);
            (0..n).map(|_| *r.pick(&pieces)).collect()
        }
        "edge_chars" => {
            // boundaries of the XML Char production (minus \r)
            let cs = ['\u{9}', '\u{A}', '\u{20}', '\u{7F}', '\u{80}', '\u{85}', '\u{A0}', '\u{D7FF}', '\u{E000}', '\u{FFFD}', '\u{2028}', '\u{10000}', '\u{10FFFF}', '\u{FEFF}'];
            let n = 1 + r.usize(6);
            (0..n).map(|_| *r.pick(&cs)).collect()
        }
        _ => {
            // mixed
            let mut s = String::new();
            for _ in 0..(1 + r.usize(3)) {
                let c = *r.pick(&["ascii", "markup", "bmp", "astral", "ws_only", "newlines", "edge_chars"]);
                s.push_str(&gen_string_class(r, c));
            }
            s
        }
    }
}

pub fn gen_string(r: &mut Rng, k: &Knobs, cover: &mut crate::Cover, field: &str) -> String {
    if k.wild_strings {
        let class = *r.pick(STRING_CLASSES);
        cover.hit(&format!("str:{}:{}", field, class));
        gen_string_class(r, class)
    } else {
        let n = 1 + r.usize(12);
        (0..n).map(|_| (b'a' + r.usize(26) as u8) as char).collect()
    }
}

fn gen_guid(r: &mut Rng) -> String {
    format!("{{{:08X}-{:04X}-{:04X}-{:04X}-{:012X}}}", r.u64() as u32, r.u64() as u16, r.u64() as u16, r.u64() as u16, r.u64() & 0xFFFF_FFFF_FFFF)
}

pub fn gen_f64_wild(r: &mut Rng) -> f64 {
    match r.usize(12) {
        0 => 0.0,
        1 => -0.0,
        2 => f64::INFINITY,
        3 => f64::NEG_INFINITY,
        4 => f64::NAN,
        5 => f64::MIN_POSITIVE / 4.0,
        6 => f64::MAX,
        7 => f64::MIN,
        8 => (r.range(-1000, 1000)) as f64,
        9 => r.f64_unit() * 200.0 - 100.0,
        _ => f64::from_bits(r.u64()),
    }
}

fn gen_f64_tame(r: &mut Rng) -> f64 {
    match r.usize(6) {
        0 => 0.0,
        1 => (r.range(-1000, 1000)) as f64,
        2 => (r.range(-100000, 100000)) as f64 / 1000.0,
        _ => r.f64_unit() * 200.0 - 100.0,
    }
}

fn gen_datetime(r: &mut Rng, wild: bool) -> DateTime {
    DateTime { gps_time: if wild { gen_f64_wild(r) } else { gen_f64_tame(r) }, atomic_reference: r.bool() }
}

pub fn gen_unit_quat(r: &mut Rng) -> Quaternion {
    match r.usize(6) {
        0 => Quaternion { w: 1.0, x: 0.0, y: 0.0, z: 0.0 },
        1 => Quaternion { w: 0.0, x: 1.0, y: 0.0, z: 0.0 },
        2 => Quaternion { w: 0.0, x: 0.0, y: 0.0, z: 1.0 },
        3 => {
            let h = std::f64::consts::FRAC_1_SQRT_2;
            Quaternion { w: h, x: 0.0, y: h, z: 0.0 }
        }
        _ => loop {
            let (w, x, y, z) = (r.f64_unit() * 2.0 - 1.0, r.f64_unit() * 2.0 - 1.0, r.f64_unit() * 2.0 - 1.0, r.f64_unit() * 2.0 - 1.0);
            let n = (w * w + x * x + y * y + z * z).sqrt();
            if n > 0.1 {
                break Quaternion { w: w / n, x: x / n, y: y / n, z: z / n };
            }
        },
    }
}

fn gen_transform(r: &mut Rng, wild: bool) -> Transform {
    if wild {
        Transform {
            rotation: Quaternion { w: gen_f64_wild(r), x: gen_f64_wild(r), y: gen_f64_wild(r), z: gen_f64_wild(r) },
            translation: Translation { x: gen_f64_wild(r), y: gen_f64_wild(r), z: gen_f64_wild(r) },
        }
    } else {
        Transform {
            rotation: gen_unit_quat(r),
            translation: Translation { x: gen_f64_tame(r), y: gen_f64_tame(r), z: gen_f64_tame(r) },
        }
    }
}

// ------------------------------------------------------------------ data types

/// number of bits the format needs for an integer range
pub fn bits_for(min: i64, max: i64) -> usize {
    let range = max as i128 - min as i128;
    if range <= 0 {
        0
    } else {
        128 - (range as u128).leading_zeros() as usize
    }
}

pub fn dt_bits(d: &RecordDataType) -> usize {
    match d {
        RecordDataType::Single { .. } => 32,
        RecordDataType::Double { .. } => 64,
        RecordDataType::ScaledInteger { min, max, .. } => bits_for(*min, *max),
        RecordDataType::Integer { min, max } => bits_for(*min, *max),
    }
}

/// width-directed integer range: exactly `w` bits
pub fn gen_int_range(r: &mut Rng, w: usize) -> (i64, i64) {
    if w == 0 {
        let m = *r.pick(&[0i64, 1, -1, 42, i64::MIN, i64::MAX, -12345]);
        return (m, m);
    }
    if w == 64 {
        // range >= 2^63
        return match r.usize(4) {
            0 => (i64::MIN, i64::MAX),
            1 => (i64::MIN, 0),
            2 => (-1, i64::MAX),
            _ => (i64::MIN + r.range(0, 1000), i64::MAX - r.range(0, 1000)),
        };
    }
    // range in [2^(w-1), 2^w - 1]
    let lo: u64 = 1u64 << (w - 1);
    let hi: u64 = if w == 63 { (1u64 << 63) - 1 } else { (1u64 << w) - 1 };
    let range: u64 = match r.usize(4) {
        0 => hi,
        1 => lo,
        2 => (lo + 1).min(hi),
        _ => lo + r.below(hi - lo + 1),
    };
    // choose min such that min + range <= i64::MAX
    let max_min: i128 = i64::MAX as i128 - range as i128;
    let min: i64 = match r.usize(7) {
        0 => 0i128.min(max_min) as i64,
        1 => 1i128.min(max_min) as i64,
        2 => -1,
        3 => (-((range / 2) as i128)).max(i64::MIN as i128) as i64,
        4 => i64::MIN,
        5 => max_min as i64,
        _ => r.range(i64::MIN, max_min as i64),
    };
    let min = (min as i128).min(max_min) as i64;
    (min, (min as i128 + range as i128) as i64)
}

fn gen_width(r: &mut Rng) -> usize {
    match r.usize(10) {
        0 => 0,
        1 => 64,
        2 => *r.pick(&[1usize, 7, 8, 9, 15, 16, 17, 31, 32, 33, 63]),
        _ => r.usize(65),
    }
}

fn gen_scale_offset(r: &mut Rng) -> (f64, f64) {
    let scale = match r.usize(8) {
        0 => 1.0,
        1 => 0.001,
        2 => 0.5,
        3 => -0.25,
        4 => 1e-9,
        5 => 1e6,
        _ => (r.range(1, 100000)) as f64 / 1000.0,
    };
    let offset = match r.usize(6) {
        0 => 0.0,
        1 => -100.0,
        2 => 1e7,
        3 => -0.0, // the sign of a zero offset is part of the declared type
        _ => gen_f64_tame(r),
    };
    (scale, offset)
}

#[derive(Clone, Copy, PartialEq)]
pub enum TypeClass {
    Any,
    FloatOnly,    // Single/Double
    NonInteger,   // Single/Double/Scaled (azimuth, elevation)
    IntegerOnly,  // Integer
}

pub fn gen_type(r: &mut Rng, tc: TypeClass, k: &Knobs) -> RecordDataType {
    let choice = match tc {
        TypeClass::Any => r.usize(4),
        TypeClass::FloatOnly => r.usize(2),
        TypeClass::NonInteger => r.usize(3),
        TypeClass::IntegerOnly => 3,
    };
    match choice {
        0 => {
            if r.chance(2, 3) {
                RecordDataType::Single { min: None, max: None }
            } else {
                let a = (r.range(-1000, 1000)) as f32 / 8.0;
                let b = a + (r.range(0, 2000)) as f32 / 8.0;
                RecordDataType::Single { min: if r.chance(4, 5) { Some(a) } else { None }, max: if r.chance(4, 5) { Some(b) } else { None } }
            }
        }
        1 => {
            if r.chance(2, 3) {
                RecordDataType::Double { min: None, max: None }
            } else {
                let a = (r.range(-100000, 100000)) as f64 / 64.0;
                let b = a + (r.range(0, 200000)) as f64 / 64.0;
                RecordDataType::Double { min: if r.chance(4, 5) { Some(a) } else { None }, max: if r.chance(4, 5) { Some(b) } else { None } }
            }
        }
        2 => {
            let w = k.width_focus.unwrap_or_else(|| gen_width(r));
            let (min, max) = gen_int_range(r, w);
            let (scale, offset) = gen_scale_offset(r);
            RecordDataType::ScaledInteger { min, max, scale, offset }
        }
        _ => {
            let w = k.width_focus.unwrap_or_else(|| gen_width(r));
            let (min, max) = gen_int_range(r, w);
            RecordDataType::Integer { min, max }
        }
    }
}

pub fn gen_value(r: &mut Rng, d: &RecordDataType, nan_ok: bool) -> RecordValue {
    match d {
        RecordDataType::Single { min, max } => {
            let v = match (min, max) {
                (Some(a), Some(b)) => match r.usize(4) {
                    0 => *a,
                    1 => *b,
                    _ => a + (b - a) * r.f64_unit() as f32,
                },
                _ => match r.usize(10) {
                    0 => 0.0,
                    1 => -0.0,
                    2 if nan_ok => f32::from_bits(0x7fc0_0000 | (r.u64() as u32 & 0x3f_ffff)),
                    3 if nan_ok => f32::INFINITY,
                    4 => f32::MIN_POSITIVE / 2.0,
                    5 => f32::MAX,
                    6 | 7 => {
                        let f = f32::from_bits(r.u64() as u32);
                        if !nan_ok && !f.is_finite() {
                            1.5
                        } else {
                            f
                        }
                    }
                    _ => (r.range(-100000, 100000)) as f32 / 100.0,
                },
            };
            let v = match (min, max) {
                (Some(a), None) if v < *a || v.is_nan() => *a,
                (None, Some(b)) if v > *b || v.is_nan() => *b,
                _ => v,
            };
            RecordValue::Single(v)
        }
        RecordDataType::Double { min, max } => {
            let v = match (min, max) {
                (Some(a), Some(b)) => match r.usize(4) {
                    0 => *a,
                    1 => *b,
                    _ => a + (b - a) * r.f64_unit(),
                },
                _ => match r.usize(10) {
                    0 => 0.0,
                    1 => -0.0,
                    2 if nan_ok => f64::from_bits(0x7ff8_0000_0000_0000 | (r.u64() & 0x7_ffff_ffff_ffff)),
                    3 if nan_ok => f64::NEG_INFINITY,
                    4 => f64::MIN_POSITIVE / 2.0,
                    5 => f64::MAX,
                    6 | 7 => {
                        let f = f64::from_bits(r.u64());
                        if !nan_ok && !f.is_finite() {
                            2.5
                        } else {
                            f
                        }
                    }
                    _ => (r.range(-10000000, 10000000)) as f64 / 1000.0,
                },
            };
            let v = match (min, max) {
                (Some(a), None) if v < *a || v.is_nan() => *a,
                (None, Some(b)) if v > *b || v.is_nan() => *b,
                _ => v,
            };
            RecordValue::Double(v)
        }
        RecordDataType::ScaledInteger { min, max, .. } => RecordValue::ScaledInteger(gen_int_in(r, *min, *max)),
        RecordDataType::Integer { min, max } => RecordValue::Integer(gen_int_in(r, *min, *max)),
    }
}

pub fn gen_int_in(r: &mut Rng, min: i64, max: i64) -> i64 {
    if min >= max {
        return min;
    }
    match r.usize(8) {
        0 => min,
        1 => max,
        2 => min + 1,
        3 => max - 1,
        4 => ((min as i128 + max as i128) / 2) as i64,
        _ => r.range(min, max),
    }
}

// ------------------------------------------------------------------ prototypes

fn rec(name: RecordName, dt: RecordDataType) -> Record {
    Record { name, data_type: dt }
}

const INT01: RecordDataType = RecordDataType::Integer { min: 0, max: 1 };
const INT02: RecordDataType = RecordDataType::Integer { min: 0, max: 2 };

pub fn gen_ext_name(r: &mut Rng, wild: bool) -> String {
    if !wild {
        let n = 1 + r.usize(6);
        let mut s = String::new();
        s.push((b'a' + r.usize(26) as u8) as char);
        for _ in 0..n {
            s.push(*r.pick(&['a', 'b', 'z', 'A', 'Q', '0', '9', '_']));
        }
        return s;
    }
    // whole accepted alphabet: [A-Za-z0-9_-]+ not starting with "xml" (any case)
    loop {
        let n = 1 + r.usize(8);
        let s: String = (0..n).map(|_| *r.pick(&['a', 'm', 'x', 'Z', 'L', '0', '7', '9', '_', '-'])).collect();
        if !s.to_lowercase().starts_with("xml") {
            return s;
        }
    }
}

/// Standard names: an extension record may legally be *named* like a standard one (C18)
const STD_NAMES: &[&str] = &["cartesianX", "intensity", "colorRed", "rowIndex", "timeStamp", "guid", "points", "prototype"];

/// rule-conforming prototype
pub fn gen_prototype(r: &mut Rng, k: &Knobs, exts: &[Extension], cover: &mut crate::Cover) -> Vec<Record> {
    let mut p: Vec<Record> = Vec::new();
    let cart = r.chance(2, 3);
    let sph = !cart || r.chance(1, 3);
    if cart {
        cover.hit("grp:cartesian");
        for n in [RecordName::CartesianX, RecordName::CartesianY, RecordName::CartesianZ] {
            p.push(rec(n, gen_type(r, TypeClass::Any, k)));
        }
        if r.chance(1, 3) {
            cover.hit("grp:cartesian_invalid");
            p.push(rec(RecordName::CartesianInvalidState, INT02));
        }
    }
    if sph {
        cover.hit("grp:spherical");
        p.push(rec(RecordName::SphericalRange, gen_type(r, TypeClass::Any, k)));
        p.push(rec(RecordName::SphericalAzimuth, gen_type(r, TypeClass::NonInteger, k)));
        p.push(rec(RecordName::SphericalElevation, gen_type(r, TypeClass::NonInteger, k)));
        if r.chance(1, 3) {
            cover.hit("grp:spherical_invalid");
            p.push(rec(RecordName::SphericalInvalidState, INT02));
        }
    }
    if r.chance(1, 2) {
        cover.hit("grp:color");
        for n in [RecordName::ColorRed, RecordName::ColorGreen, RecordName::ColorBlue] {
            p.push(rec(n, gen_type(r, TypeClass::Any, k)));
        }
        if r.chance(1, 3) {
            p.push(rec(RecordName::IsColorInvalid, INT01));
        }
    }
    if r.chance(1, 2) {
        cover.hit("grp:intensity");
        p.push(rec(RecordName::Intensity, gen_type(r, TypeClass::Any, k)));
        if r.chance(1, 3) {
            p.push(rec(RecordName::IsIntensityInvalid, INT01));
        }
    }
    if r.chance(1, 3) {
        cover.hit("grp:row");
        p.push(rec(RecordName::RowIndex, gen_type(r, TypeClass::IntegerOnly, k)));
    }
    if r.chance(1, 3) {
        cover.hit("grp:column");
        p.push(rec(RecordName::ColumnIndex, gen_type(r, TypeClass::IntegerOnly, k)));
    }
    if r.chance(1, 4) {
        cover.hit("grp:return");
        p.push(rec(RecordName::ReturnCount, gen_type(r, TypeClass::IntegerOnly, k)));
        p.push(rec(RecordName::ReturnIndex, gen_type(r, TypeClass::IntegerOnly, k)));
    }
    if r.chance(1, 3) {
        cover.hit("grp:timestamp");
        p.push(rec(RecordName::TimeStamp, gen_type(r, TypeClass::Any, k)));
        if r.chance(1, 3) {
            p.push(rec(RecordName::IsTimeStampInvalid, INT01));
        }
    }
    if !exts.is_empty() {
        let n = r.usize(4);
        for _ in 0..n {
            let e = r.pick(exts);
            let name = if k.ext_std_names && r.chance(1, 2) { r.pick(STD_NAMES).to_string() } else { gen_ext_name(r, k.wild_ext) };
            // avoid duplicate (ns,name) pairs: element names must be unique for decoders that key by name
            if p.iter().any(|x| matches!(&x.name, RecordName::Unknown{namespace, name: n2} if namespace == &e.namespace && n2 == &name)) {
                continue;
            }
            cover.hit("grp:extension");
            p.push(rec(RecordName::Unknown { namespace: e.namespace.clone(), name }, gen_type(r, TypeClass::Any, k)));
        }
    }
    if let Some(w) = k.width_focus {
        // make sure at least one integer of the focused width exists
        if !p.iter().any(|x| matches!(x.data_type, RecordDataType::Integer { .. } | RecordDataType::ScaledInteger { .. }) && dt_bits(&x.data_type) == w) {
            let (min, max) = gen_int_range(r, w);
            if !p.iter().any(|x| x.name == RecordName::RowIndex) {
                p.push(rec(RecordName::RowIndex, RecordDataType::Integer { min, max }));
            } else if !p.iter().any(|x| x.name == RecordName::ColumnIndex) {
                p.push(rec(RecordName::ColumnIndex, RecordDataType::Integer { min, max }));
            }
        }
    }
    r.shuffle(&mut p);
    p.truncate(k.max_records.max(3));
    // truncation may have broken group rules; repair by dropping incomplete groups
    repair_prototype(&mut p);
    p
}

fn has(p: &[Record], n: &RecordName) -> bool {
    p.iter().any(|x| &x.name == n)
}

fn repair_prototype(p: &mut Vec<Record>) {
    use RecordName::*;
    let groups: [&[RecordName]; 3] = [&[CartesianX, CartesianY, CartesianZ], &[SphericalRange, SphericalAzimuth, SphericalElevation], &[ColorRed, ColorGreen, ColorBlue]];
    for g in groups {
        let c = g.iter().filter(|n| has(p, n)).count();
        if c != 0 && c != 3 {
            p.retain(|x| !g.contains(&x.name));
        }
    }
    let c = [ReturnCount, ReturnIndex].iter().filter(|n| has(p, n)).count();
    if c == 1 {
        p.retain(|x| x.name != ReturnCount && x.name != ReturnIndex);
    }
    if !has(p, &CartesianX) {
        p.retain(|x| x.name != CartesianInvalidState);
    }
    if !has(p, &SphericalAzimuth) {
        p.retain(|x| x.name != SphericalInvalidState);
    }
    if !has(p, &ColorRed) {
        p.retain(|x| x.name != IsColorInvalid);
    }
    if !has(p, &Intensity) {
        p.retain(|x| x.name != IsIntensityInvalid);
    }
    if !has(p, &TimeStamp) {
        p.retain(|x| x.name != IsTimeStampInvalid);
    }
    if !has(p, &CartesianX) && !has(p, &SphericalAzimuth) {
        p.push(rec(CartesianX, RecordDataType::F32));
        p.push(rec(CartesianY, RecordDataType::F32));
        p.push(rec(CartesianZ, RecordDataType::F32));
    }
}

/// The documented prototype rules, as an independent predicate (from the API docs and
/// the error messages of add_pointcloud). Ok(()) = rule-conforming.
pub fn prototype_conforms(p: &[Record], exts: &[Extension]) -> std::result::Result<(), &'static str> {
    use RecordName::*;
    let get = |n: &RecordName| p.iter().find(|x| &x.name == n);
    let cnt = |g: &[RecordName]| g.iter().filter(|n| has(p, n)).count();
    let c = cnt(&[CartesianX, CartesianY, CartesianZ]);
    if c != 0 && c != 3 {
        return Err("cartesian-incomplete");
    }
    let s = cnt(&[SphericalRange, SphericalAzimuth, SphericalElevation]);
    if s != 0 && s != 3 {
        return Err("spherical-incomplete");
    }
    if c == 0 && s == 0 {
        return Err("no-coordinates");
    }
    let is_int = |d: &RecordDataType, lo: i64, hi: i64| matches!(d, RecordDataType::Integer{min,max} if *min==lo && *max==hi);
    if let Some(x) = get(&CartesianInvalidState) {
        if c == 0 {
            return Err("cartesian-invalid-without-cartesian");
        }
        if !is_int(&x.data_type, 0, 2) {
            return Err("cartesian-invalid-type");
        }
    }
    if let Some(x) = get(&SphericalInvalidState) {
        if s == 0 {
            return Err("spherical-invalid-without-spherical");
        }
        if !is_int(&x.data_type, 0, 2) {
            return Err("spherical-invalid-type");
        }
    }
    for n in [SphericalAzimuth, SphericalElevation] {
        if let Some(x) = get(&n) {
            if matches!(x.data_type, RecordDataType::Integer { .. }) {
                return Err("angle-integer");
            }
        }
    }
    let col = cnt(&[ColorRed, ColorGreen, ColorBlue]);
    if col != 0 && col != 3 {
        return Err("color-incomplete");
    }
    if let Some(x) = get(&IsColorInvalid) {
        if col == 0 {
            return Err("color-invalid-without-color");
        }
        if !is_int(&x.data_type, 0, 1) {
            return Err("color-invalid-type");
        }
    }
    let rc = cnt(&[ReturnCount, ReturnIndex]);
    if rc == 1 {
        return Err("return-incomplete");
    }
    for n in [ReturnCount, ReturnIndex, RowIndex, ColumnIndex] {
        if let Some(x) = get(&n) {
            if !matches!(x.data_type, RecordDataType::Integer { .. }) {
                return Err("index-not-integer");
            }
        }
    }
    if let Some(x) = get(&IsIntensityInvalid) {
        if !has(p, &Intensity) {
            return Err("intensity-invalid-without-intensity");
        }
        if !is_int(&x.data_type, 0, 1) {
            return Err("intensity-invalid-type");
        }
    }
    if let Some(x) = get(&IsTimeStampInvalid) {
        if !has(p, &TimeStamp) {
            return Err("timestamp-invalid-without-timestamp");
        }
        if !is_int(&x.data_type, 0, 1) {
            return Err("timestamp-invalid-type");
        }
    }
    for x in p {
        if let Unknown { namespace, name } = &x.name {
            if !name_ok(namespace) || !name_ok(name) {
                return Err("extension-name-malformed");
            }
            if !exts.iter().any(|e| &e.namespace == namespace) {
                return Err("extension-unregistered");
            }
        }
        match &x.data_type {
            RecordDataType::Integer { min, max } | RecordDataType::ScaledInteger { min, max, .. } => {
                if min > max {
                    return Err("min-greater-max");
                }
            }
            _ => {}
        }
    }
    Ok(())
}

/// XML NCName restricted to the alphabet the library documents ([A-Za-z0-9_-], not starting
/// with "xml"); an XML name additionally cannot start with a digit or '-'.
pub fn name_ok(s: &str) -> bool {
    if s.is_empty() || s.to_lowercase().starts_with("xml") {
        return false;
    }
    if !s.chars().all(|c| c.is_ascii_alphanumeric() || c == '_' || c == '-') {
        return false;
    }
    let f = s.chars().next().unwrap_or('0');
    f.is_ascii_alphabetic() || f == '_'
}

/// name accepted by the *documented* alphabet but not a legal XML name start
pub fn name_doc_ok(s: &str) -> bool {
    !(s.is_empty() || s.to_lowercase().starts_with("xml")) && s.chars().all(|c| c.is_ascii_alphanumeric() || c == '_' || c == '-')
}

/// does this value vector fit the prototype? Err(class) otherwise
pub fn point_fits(p: &[Record], v: &[RecordValue]) -> std::result::Result<(), &'static str> {
    if p.len() != v.len() {
        return Err("arity");
    }
    for (r, x) in p.iter().zip(v.iter()) {
        match (&r.data_type, x) {
            (RecordDataType::Single { .. }, RecordValue::Single(_)) => {}
            (RecordDataType::Double { .. }, RecordValue::Double(_)) => {}
            (RecordDataType::ScaledInteger { min, max, .. }, RecordValue::ScaledInteger(i)) => {
                if i < min || i > max {
                    return Err("range");
                }
            }
            (RecordDataType::Integer { min, max }, RecordValue::Integer(i)) => {
                if i < min || i > max {
                    return Err("range");
                }
            }
            _ => return Err("type"),
        }
    }
    Ok(())
}

/// the writer's points-per-packet for a prototype, by the documented formula
pub fn points_per_packet(p: &[Record]) -> Option<usize> {
    let bits: usize = p.iter().map(|x| dt_bits(&x.data_type)).sum();
    if bits == 0 {
        return None;
    }
    // a prototype too wide for the packet header alone leaves no room at all
    Some(65535usize.checked_sub(6 + 2 * p.len() + p.len() + 500).map(|room| room * 8 / bits).unwrap_or(0))
}

/// Is one point of this prototype wider than what the library's packet layout (whole points per
/// data packet, one u16 length per byte stream) can hold? For such prototypes the statement of
/// C10 leaves the choice between an error and a faithful file; it never allows a panic or a call
/// that does not return.
pub fn proto_too_wide(p: &[Record]) -> bool {
    65535usize.checked_sub(6 + 2 * p.len() + p.len() + 500).is_none() || points_per_packet(p) == Some(0) || p.len() > 0xFFFF
}

pub fn gen_point(r: &mut Rng, p: &[Record], nan_ok: bool) -> RawValues {
    p.iter().map(|x| gen_value(r, &x.data_type, nan_ok)).collect()
}

fn gen_point_count(r: &mut Rng, p: &[Record], k: &Knobs, cover: &mut crate::Cover) -> usize {
    let ppp = points_per_packet(p);
    let small = *r.pick(&[0usize, 1, 2, 3, 7, 8, 9, 17, 64]);
    if k.full_packets {
        // whole data packets also for narrow points: the capacity computation of the writer is exact only if
        // header, byte stream lengths, carried-over bits and the padding to a multiple of four all fit
        if let Some(pp) = ppp {
            if pp > 0 && pp <= 70000 {
                let kk = 1 + r.usize(3);
                let d = r.range(-2, 2);
                let bits = p.iter().map(|x| dt_bits(&x.data_type)).sum::<usize>();
                cover.hit(&format!("count:full_packets:k{}:bits{}", kk, bits.min(400) / 8 * 8));
                return ((kk * pp) as i64 + d).max(0) as usize;
            }
        }
    }
    if !k.big_points {
        return small;
    }
    match (r.usize(10), ppp) {
        (0, Some(pp)) if pp <= 6000 => {
            // around packet capacity boundaries
            let kk = 1 + r.usize(3);
            let d = r.range(-2, 2);
            cover.hit(&format!("count:packet_boundary:k{}:d{}", kk, d));
            ((kk * pp) as i64 + d).max(0) as usize
        }
        (1, _) => 100 + r.usize(400),
        _ => small,
    }
}

fn gen_pc_meta(r: &mut Rng, k: &Knobs, proto: &[Record], cover: &mut crate::Cover) -> PcMeta {
    let mut m = PcMeta::default();
    let p = if k.meta_heavy { (1, 2) } else { (1, 8) };
    let wild = k.meta_heavy;
    macro_rules! s {
        ($f:ident, $name:expr) => {
            if r.chance(p.0, p.1) {
                m.$f = Some(gen_string(r, k, cover, $name));
            }
        };
    }
    s!(name, "pc.name");
    s!(description, "pc.description");
    s!(sensor_vendor, "pc.sensor_vendor");
    s!(sensor_model, "pc.sensor_model");
    s!(sensor_serial, "pc.sensor_serial");
    s!(sensor_hw, "pc.sensor_hw");
    s!(sensor_sw, "pc.sensor_sw");
    s!(sensor_fw, "pc.sensor_fw");
    if r.chance(p.0, p.1) {
        let n = r.usize(4);
        m.original_guids = Some((0..n).map(|_| gen_string(r, k, cover, "pc.original_guid")).collect());
    }
    if r.chance(p.0, p.1) {
        let w2 = wild && r.chance(1, 2);
        m.transform = Some(gen_transform(r, w2));
    }
    if r.chance(p.0, p.1) {
        m.acq_start = Some(gen_datetime(r, wild));
    }
    if r.chance(p.0, p.1) {
        m.acq_end = Some(gen_datetime(r, wild));
    }
    if r.chance(p.0, p.1) {
        m.temperature = Some(if wild { gen_f64_wild(r) } else { gen_f64_tame(r) });
    }
    if r.chance(p.0, p.1) {
        m.humidity = Some(if wild { gen_f64_wild(r) } else { gen_f64_tame(r) });
    }
    if r.chance(p.0, p.1) {
        m.pressure = Some(if wild { gen_f64_wild(r) } else { gen_f64_tame(r) });
    }
    // limits overrides
    if r.chance(1, p.1.min(4)) {
        m.intensity_limits = Some(gen_intensity_limits(r, proto, cover));
    }
    if r.chance(1, p.1.min(4)) {
        m.color_limits = Some(gen_color_limits(r, proto, cover));
    }
    m
}

fn gen_limit_value(r: &mut Rng, like: Option<&RecordDataType>) -> RecordValue {
    let t = match like {
        Some(RecordDataType::Single { .. }) => 0,
        Some(RecordDataType::Double { .. }) => 1,
        Some(RecordDataType::ScaledInteger { .. }) => 2,
        Some(RecordDataType::Integer { .. }) => 3,
        None => r.usize(4),
    };
    match t {
        0 => RecordValue::Single((r.range(-1000, 1000)) as f32 / 4.0),
        1 => RecordValue::Double((r.range(-100000, 100000)) as f64 / 16.0),
        // incl. integers that no f64 can hold exactly (beyond 2^53) and the neighbours of the i64 extremes
        2 => RecordValue::ScaledInteger(*r.pick(&[0i64, 1, -5, 255, 65535, i64::MIN, i64::MAX, 1234567, (1 << 53) + 1, -(1 << 53) - 1, 9007199254740993, i64::MAX - 1, i64::MIN + 1, 0x7FFF_FFFF_FFFF_FC01, 1_000_000_000_000_000_001])),
        _ => RecordValue::Integer(*r.pick(&[0i64, 1, -5, 255, 65535, i64::MIN, i64::MAX, 7654321, (1 << 53) + 1, -(1 << 53) - 1, -9007199254740993, i64::MAX - 1, i64::MIN + 1, 0x7FFF_FFFF_FFFF_FC01, -1_000_000_000_000_000_001])),
    }
}

fn gen_intensity_limits(r: &mut Rng, proto: &[Record], cover: &mut crate::Cover) -> Option<IntensityLimits> {
    let like = proto.iter().find(|x| x.name == RecordName::Intensity).map(|x| &x.data_type);
    match r.usize(6) {
        0 => {
            cover.hit("limits:intensity:none");
            None
        }
        1 => {
            cover.hit("limits:intensity:partial");
            Some(IntensityLimits { intensity_min: Some(gen_limit_value(r, like)), intensity_max: None })
        }
        2 => {
            cover.hit("limits:intensity:mixed");
            Some(IntensityLimits { intensity_min: Some(gen_limit_value(r, None)), intensity_max: Some(gen_limit_value(r, None)) })
        }
        _ => {
            cover.hit("limits:intensity:complete");
            Some(IntensityLimits { intensity_min: Some(gen_limit_value(r, like)), intensity_max: Some(gen_limit_value(r, like)) })
        }
    }
}

fn gen_color_limits(r: &mut Rng, proto: &[Record], cover: &mut crate::Cover) -> Option<ColorLimits> {
    let like = proto.iter().find(|x| x.name == RecordName::ColorRed).map(|x| &x.data_type);
    match r.usize(6) {
        0 => {
            cover.hit("limits:color:none");
            None
        }
        1 => {
            cover.hit("limits:color:partial");
            let mut l = ColorLimits {
                red_min: Some(gen_limit_value(r, like)),
                red_max: Some(gen_limit_value(r, like)),
                green_min: Some(gen_limit_value(r, like)),
                green_max: Some(gen_limit_value(r, like)),
                blue_min: Some(gen_limit_value(r, like)),
                blue_max: Some(gen_limit_value(r, like)),
            };
            match r.usize(6) {
                0 => l.red_min = None,
                1 => l.red_max = None,
                2 => l.green_min = None,
                3 => l.green_max = None,
                4 => l.blue_min = None,
                _ => l.blue_max = None,
            }
            Some(l)
        }
        _ => {
            cover.hit("limits:color:complete");
            Some(ColorLimits {
                red_min: Some(gen_limit_value(r, like)),
                red_max: Some(gen_limit_value(r, like)),
                green_min: Some(gen_limit_value(r, like)),
                green_max: Some(gen_limit_value(r, like)),
                blue_min: Some(gen_limit_value(r, like)),
                blue_max: Some(gen_limit_value(r, like)),
            })
        }
    }
}

pub fn gen_blob_data(r: &mut Rng, len: usize, tag: u8) -> Vec<u8> {
    match r.usize(4) {
        0 => vec![0u8; len],
        1 => vec![0xFFu8; len],
        2 => (0..len).map(|i| (i as u8).wrapping_mul(31).wrapping_add(tag)).collect(), // position stamped
        _ => r.bytes(len),
    }
}

pub fn gen_blob_len(r: &mut Rng, k: &Knobs) -> usize {
    if k.blob_heavy {
        match r.usize(6) {
            0 => *r.pick(&[0usize, 1, 2, 3, 4, 5, 1003, 1004, 1005, 1019, 1020, 1021, 1023, 1024, 1025, 2039, 2040, 2041, 2043, 2044, 2045, 3060]),
            1 => r.usize(5200),
            _ => r.usize(2101),
        }
    } else {
        match r.usize(5) {
            0 => 0,
            1 => r.usize(3000),
            _ => r.usize(64),
        }
    }
}

fn gen_rep(r: &mut Rng, k: &Knobs, tag: u8, wild: bool) -> RepSpec {
    let len = gen_blob_len(r, k);
    let mask = if r.bool() {
        let ml = gen_blob_len(r, k);
        Some(gen_blob_data(r, ml, tag.wrapping_add(101)))
    } else {
        None
    };
    let mut f = [0.0; 5];
    for x in f.iter_mut() {
        *x = if wild { gen_f64_wild(r) } else { gen_f64_tame(r) };
    }
    RepSpec {
        png: r.bool(),
        data: gen_blob_data(r, len, tag),
        mask,
        width: if wild { *r.pick(&[0u32, 1, 640, u32::MAX]) } else { r.below(5000) as u32 },
        height: if wild { *r.pick(&[0u32, 1, 480, u32::MAX]) } else { r.below(5000) as u32 },
        f,
    }
}

fn gen_proj_kind(r: &mut Rng) -> ProjKind {
    match r.usize(3) {
        0 => ProjKind::Pinhole,
        1 => ProjKind::Spherical,
        _ => ProjKind::Cylindrical,
    }
}

fn gen_img(r: &mut Rng, k: &Knobs, idx: usize, cover: &mut crate::Cover) -> ImgSpec {
    let wild = k.meta_heavy;
    let tag = (idx as u8).wrapping_mul(17).wrapping_add(3);
    let (vis, proj) = match r.usize(3) {
        0 => (true, false),
        1 => (false, true),
        _ => (true, true),
    };
    let mut m = ImgMeta::default();
    let p = if k.meta_heavy { (1, 2) } else { (1, 6) };
    if r.chance(p.0, p.1) {
        m.name = Some(gen_string(r, k, cover, "img.name"));
    }
    if r.chance(p.0, p.1) {
        m.description = Some(gen_string(r, k, cover, "img.description"));
    }
    if r.chance(p.0, p.1) {
        m.pointcloud_guid = Some(gen_string(r, k, cover, "img.pointcloud_guid"));
    }
    if r.chance(p.0, p.1) {
        let w2 = wild && r.bool();
        m.transform = Some(gen_transform(r, w2));
    }
    if r.chance(p.0, p.1) {
        m.acquisition = Some(gen_datetime(r, wild));
    }
    if r.chance(p.0, p.1) {
        m.sensor_vendor = Some(gen_string(r, k, cover, "img.sensor_vendor"));
    }
    if r.chance(p.0, p.1) {
        m.sensor_model = Some(gen_string(r, k, cover, "img.sensor_model"));
    }
    if r.chance(p.0, p.1) {
        m.sensor_serial = Some(gen_string(r, k, cover, "img.sensor_serial"));
    }
    let visual = if vis { Some(gen_rep(r, k, tag, wild)) } else { None };
    let projv = if proj { Some((gen_proj_kind(r), gen_rep(r, k, tag.wrapping_add(50), wild))) } else { None };
    if let Some((kind, rep)) = &projv {
        cover.hit(&format!("img:{:?}:mask={}:png={}", kind, rep.mask.is_some(), rep.png));
    }
    if let Some(rep) = &visual {
        cover.hit(&format!("img:visual:mask={}:png={}", rep.mask.is_some(), rep.png));
    }
    let second = if k.hostile && proj && r.chance(1, 3) { Some((gen_proj_kind(r), gen_rep(r, k, tag.wrapping_add(90), false))) } else { None };
    ImgSpec {
        guid: if k.wild_strings && r.chance(1, 3) { gen_string(r, k, cover, "img.guid") } else { gen_guid(r) },
        visual,
        proj: projv,
        second_proj: second,
        meta: m,
        abandon: k.hostile && r.chance(1, 8),
    }
}

pub fn gen_pc(r: &mut Rng, k: &Knobs, exts: &[Extension], cover: &mut crate::Cover) -> PcSpec {
    let proto = gen_prototype(r, k, exts, cover);
    let n = gen_point_count(r, &proto, k, cover);
    let nan_ok = k.nan_ok && !k.bounds_focus;
    let points = (0..n).map(|_| gen_point(r, &proto, nan_ok)).collect();
    let meta = gen_pc_meta(r, k, &proto, cover);
    PcSpec {
        guid: if k.wild_strings && r.chance(1, 3) { gen_string(r, k, cover, "pc.guid") } else { gen_guid(r) },
        prototype: proto,
        points,
        meta,
        abandon: false,
    }
}

pub fn gen_extension(r: &mut Rng, k: &Knobs, cover: &mut crate::Cover) -> Extension {
    let ns = gen_ext_name(r, k.wild_ext);
    let url = if k.wild_ext {
        let class = *r.pick(&["ascii", "markup", "bmp", "ws_only", "mixed"]);
        cover.hit(&format!("exturl:{}", class));
        format!("http://x.org/{}", gen_string_class(r, class))
    } else {
        format!("http://www.example.com/{}", gen_ext_name(r, false))
    };
    Extension { namespace: ns, url }
}

/// Length of a leading blob such that the section following it starts at logical residue `res`
/// (mod 1020, 4-aligned). The file header occupies logical 0..48, a blob has a 16 byte header.
pub fn leading_blob_len_for(res: u32) -> usize {
    // start = 48 + 16 + len rounded up to 4  => want (start % 1020) == res (res multiple of 4)
    let res = (res / 4) * 4;
    let base = 64u32;
    let want = (res + 1020 * 2 - base) % 1020; // in 0..1020, multiple of 4
    want as usize
}

pub fn gen_scene(r: &mut Rng, k: &Knobs, cover: &mut crate::Cover) -> Scene {
    let mut items = Vec::new();
    let mut exts: Vec<Extension> = Vec::new();
    if let Some(res) = k.residue_sweep {
        let len = leading_blob_len_for(res);
        items.push(Item::Blob(gen_blob_data(r, len, 7)));
    }
    let n_ext = if k.wild_ext || k.ext_std_names { 1 + r.usize(3) } else { r.usize(3) };
    for _ in 0..n_ext {
        let e = gen_extension(r, k, cover);
        // one URL per prefix: two prefixes bound to one namespace URI are the same XML namespace
        if !exts.iter().any(|x| x.namespace == e.namespace || x.url == e.url) {
            exts.push(e.clone());
            items.push(Item::Ext(e));
        }
    }
    let n = if k.max_items == 0 { 0 } else { r.usize(k.max_items + 1) };
    let n = if k.residue_sweep.is_some() { n.max(1) } else { n };
    for i in 0..n {
        let c = if k.blob_heavy { r.usize(4) } else { r.usize(6) };
        match c {
            0 => {
                let len = gen_blob_len(r, k);
                cover.hit("item:blob");
                items.push(Item::Blob(gen_blob_data(r, len, i as u8)));
            }
            1 => {
                cover.hit("item:image");
                items.push(Item::Img(gen_img(r, k, i, cover)));
            }
            _ if k.blob_heavy && c == 2 => {
                cover.hit("item:image");
                items.push(Item::Img(gen_img(r, k, i, cover)));
            }
            _ => {
                cover.hit("item:pc");
                items.push(Item::Pc(gen_pc(r, k, &exts, cover)));
            }
        }
    }
    if k.meta_heavy && r.chance(1, 6) {
        // nothing forbids two images or two point clouds with the same GUID: every one of them must survive
        let mut last_img: Option<String> = None;
        let mut last_pc: Option<String> = None;
        for it in items.iter_mut() {
            match it {
                Item::Img(im) => {
                    if let Some(g) = &last_img {
                        im.guid = g.clone();
                        cover.hit("scene:images-share-guid");
                    }
                    last_img = Some(im.guid.clone());
                }
                Item::Pc(pc) => {
                    if let Some(g) = &last_pc {
                        pc.guid = g.clone();
                        cover.hit("scene:pointclouds-share-guid");
                    }
                    last_pc = Some(pc.guid.clone());
                }
                _ => {}
            }
        }
    }
    let wild = k.meta_heavy;
    Scene {
        guid: if k.wild_strings {
            let s = gen_string(r, k, cover, "root.guid");
            if s.is_empty() {
                "g".into()
            } else {
                s
            }
        } else {
            gen_guid(r)
        },
        coord: if r.chance(1, 2) { Some(if r.chance(4, 5) { Some(gen_string(r, k, cover, "root.coord")) } else { None }) } else { None },
        creation: if r.chance(1, 2) { Some(if r.chance(4, 5) { Some(gen_datetime(r, wild)) } else { None }) } else { None },
        items,
        xml_mode: match r.usize(5) {
            0 => XmlMode::Plain,
            1 => XmlMode::Identity,
            2 => XmlMode::AppendComment,
            3 => XmlMode::TrimEnd,
            _ => XmlMode::TrailingBlanks,
        },
        no_finalize: false,
        stop_on_err: false,
        carry_on: false,
        src_salt: 0,
        failing_sources: false,
    }
}

// ------------------------------------------------------------------ execution against the real writer

#[derive(Clone, Debug)]
pub struct CallRec {
    pub no: u32,
    pub op: String,
    pub ok: bool,
    pub err: Option<String>,
    pub panic: Option<String>,
}

#[derive(Clone, Debug)]
pub struct ExpPc {
    pub guid: String,
    pub prototype: Vec<Record>,
    pub points: Vec<RawValues>,
    pub meta: PcMeta,
    /// a value that does not fit was accepted by add_point: contents undefined afterwards
    pub tainted: bool,
}

#[derive(Clone, Debug)]
pub struct ExpImg {
    pub spec: ImgSpec,
}

#[derive(Default)]
pub struct RunResult {
    pub calls: Vec<CallRec>,
    pub pcs: Vec<ExpPc>,
    pub imgs: Vec<ExpImg>,
    pub blobs: Vec<(Blob, Vec<u8>)>,
    pub exts: Vec<Extension>,
    pub finalized: bool,
    pub new_ok: bool,
    pub xml_written: Option<String>,
    pub violations: Vec<Viol>,
    pub panicked: bool,
    pub stopped_on_err: bool,
    pub finalize_call_no: Option<u32>,
}

#[derive(Clone, Debug)]
pub struct Viol {
    pub prop: &'static str,
    pub sig: String,
    pub detail: String,
}

pub fn viol(prop: &'static str, sig: String, detail: String) -> Viol {
    Viol { prop, sig, detail }
}

/// Run `f`, catching panics; returns Err(panic message+location) on panic.
pub fn guarded<R>(f: impl FnOnce() -> R) -> std::result::Result<R, String> {
    crate::PANIC_INFO.with(|p| *p.borrow_mut() = None);
    crate::IN_GUARD.with(|g| g.set(g.get() + 1));
    let res = catch_unwind(AssertUnwindSafe(f));
    crate::IN_GUARD.with(|g| g.set(g.get().saturating_sub(1)));
    match res {
        Ok(r) => Ok(r),
        Err(_) => {
            let info = crate::PANIC_INFO.with(|p| p.borrow_mut().take()).unwrap_or_else(|| "panic (no info)".to_string());
            Err(info)
        }
    }
}

/// panic signature: location + message class
pub fn panic_sig(info: &str) -> String {
    class_of(info)
}

fn apply_pc_meta<T: Read + Write + Seek>(w: &mut PointCloudWriter<T>, m: &PcMeta) {
    if m.name.is_some() {
        w.set_name(m.name.clone());
    }
    if m.description.is_some() {
        w.set_description(m.description.clone());
    }
    if m.original_guids.is_some() {
        w.set_original_guids(m.original_guids.clone());
    }
    if m.transform.is_some() {
        w.set_transform(m.transform.clone());
    }
    if m.acq_start.is_some() {
        w.set_acquisition_start(m.acq_start.clone());
    }
    if m.acq_end.is_some() {
        w.set_acquisition_end(m.acq_end.clone());
    }
    if m.sensor_vendor.is_some() {
        w.set_sensor_vendor(m.sensor_vendor.clone());
    }
    if m.sensor_model.is_some() {
        w.set_sensor_model(m.sensor_model.clone());
    }
    if m.sensor_serial.is_some() {
        w.set_sensor_serial(m.sensor_serial.clone());
    }
    if m.sensor_hw.is_some() {
        w.set_sensor_hw_version(m.sensor_hw.clone());
    }
    if m.sensor_sw.is_some() {
        w.set_sensor_sw_version(m.sensor_sw.clone());
    }
    if m.sensor_fw.is_some() {
        w.set_sensor_fw_version(m.sensor_fw.clone());
    }
    if m.temperature.is_some() {
        w.set_temperature(m.temperature);
    }
    if m.humidity.is_some() {
        w.set_humidity(m.humidity);
    }
    if m.pressure.is_some() {
        w.set_atmospheric_pressure(m.pressure);
    }
    if let Some(l) = &m.intensity_limits {
        w.set_intensity_limits(l.clone());
    }
    if let Some(l) = &m.color_limits {
        w.set_color_limits(l.clone());
    }
}

fn img_format(png: bool) -> ImageFormat {
    if png {
        ImageFormat::Png
    } else {
        ImageFormat::Jpeg
    }
}

fn add_proj<T: Read + Write + Seek>(w: &mut ImageWriter<T>, kind: &ProjKind, rep: &RepSpec, salt: u8) -> Result<()> {
    let mut data = PieceReader::new(&rep.data, salt);
    let mut mask_slice = PieceReader::new(rep.mask.as_deref().unwrap_or(&[]), salt.wrapping_add(1));
    let mask: Option<&mut dyn Read> = if rep.mask.is_some() { Some(&mut mask_slice) } else { None };
    match kind {
        ProjKind::Pinhole => w.add_pinhole(
            img_format(rep.png),
            &mut data,
            PinholeImageProperties {
                width: rep.width,
                height: rep.height,
                focal_length: rep.f[0],
                pixel_width: rep.f[1],
                pixel_height: rep.f[2],
                principal_x: rep.f[3],
                principal_y: rep.f[4],
            },
            mask,
        ),
        ProjKind::Spherical => w.add_spherical(
            img_format(rep.png),
            &mut data,
            SphericalImageProperties { width: rep.width, height: rep.height, pixel_width: rep.f[0], pixel_height: rep.f[1] },
            mask,
        ),
        ProjKind::Cylindrical => w.add_cylindrical(
            img_format(rep.png),
            &mut data,
            CylindricalImageProperties {
                width: rep.width,
                height: rep.height,
                radius: rep.f[0],
                principal_y: rep.f[1],
                pixel_width: rep.f[2],
                pixel_height: rep.f[3],
            },
            mask,
        ),
    }
}

/// What kind of programs the oracle is judging (decides which property a deviation is filed under)
#[derive(Clone, Copy, PartialEq)]
pub enum Judge {
    Conforming, // every call is expected to succeed (C01/C04/C06/C14)
    Hostile,    // C10
}

/// Execute the scene. Every public call is wrapped: panics are caught and recorded, return
/// values are compared with the model's expectation (accept / reject).
pub fn run_scene(scene: &Scene, dev: Dev, judge: Judge) -> RunResult {
    let mut res = RunResult::default();
    let mut call_no: u32 = 0;
    macro_rules! call {
        ($op:expr, $body:expr) => {{
            call_no += 1;
            dev.set_call(call_no);
            let r = guarded(|| $body);
            dev.set_call(0); // device traffic outside a public call (Drop) is attributed to call 0
            match &r {
                Ok(Ok(_)) => res.calls.push(CallRec { no: call_no, op: $op.to_string(), ok: true, err: None, panic: None }),
                Ok(Err(e)) => {
                    res.calls.push(CallRec { no: call_no, op: $op.to_string(), ok: false, err: Some(err_str(e)), panic: None });
                    if scene.stop_on_err {
                        res.stopped_on_err = true;
                        return res;
                    }
                }
                Err(p) => {
                    res.panicked = true;
                    res.calls.push(CallRec { no: call_no, op: $op.to_string(), ok: false, err: None, panic: Some(p.clone()) });
                    res.violations.push(viol(
                        if judge == Judge::Hostile { "C10" } else { "C01" },
                        format!("panic/{}/{}", $op, panic_sig(p)),
                        format!("writer call {} panicked: {}", $op, p),
                    ));
                }
            }
            r
        }};
    }
    let pj: &'static str = if judge == Judge::Hostile { "C10" } else { "C01" };

    let w = call!("E57Writer::new", E57Writer::new(dev.clone(), &scene.guid));
    let mut w = match w {
        Ok(Ok(w)) => w,
        _ => return res,
    };
    res.new_ok = true;
    if let Some(c) = &scene.coord {
        w.set_coordinate_metadata(c.clone());
    }
    if let Some(c) = &scene.creation {
        w.set_creation(c.clone());
    }
    for item in &scene.items {
        match item {
            Item::Ext(e) => {
                let expect_ok = name_ok(&e.namespace) && !res.exts.iter().any(|x| x.namespace == e.namespace) && url_ok(&e.url);
                let doc_ok = name_doc_ok(&e.namespace) && !res.exts.iter().any(|x| x.namespace == e.namespace);
                let r = call!("register_extension", w.register_extension(e.clone()));
                match r {
                    Ok(Ok(())) => {
                        res.exts.push(e.clone());
                        if !doc_ok {
                            let why = if name_doc_ok(&e.namespace) { "accept/extension-prefix-registered-twice" } else { "accept/extension-name-malformed" };
                            res.violations.push(viol("C10", why.into(), format!("register_extension accepted {:?} (already registered: {:?})", e, res.exts.iter().map(|x| x.namespace.clone()).collect::<Vec<_>>())));
                        }
                        let _ = expect_ok;
                    }
                    Ok(Err(err)) => {
                        if expect_ok {
                            res.violations.push(viol(pj, format!("reject/register_extension/{}", err_class(&err)), format!("valid extension {:?} rejected: {}", e, err_str(&err))));
                        }
                    }
                    Err(_) => return res,
                }
            }
            Item::Blob(data) => {
                if scene.failing_sources && data.len() > 8 && data.len() % 3 == 1 {
                    // the application's source breaks after an odd number of bytes; the call fails, the application
                    // carries on and adds the data again from a working source
                    let k = (data.len() / 2) | 1;
                    let mut bad = PieceReader::failing(data, scene.src_salt, k);
                    let r = call!("add_blob(failing source)", w.add_blob(&mut bad));
                    match r {
                        Ok(Ok(b)) => res.violations.push(viol("C06", "add_blob/ok-despite-failing-source".into(), format!("add_blob returned Ok (length {}) although its source failed after {} of {} bytes", b.length, k, data.len()))),
                        Ok(Err(_)) => {}
                        Err(_) => return res,
                    }
                }
                let mut rd = PieceReader::new(data, scene.src_salt);
                let r = call!("add_blob", w.add_blob(&mut rd));
                match r {
                    Ok(Ok(b)) => {
                        if b.length != data.len() as u64 {
                            res.violations.push(viol("C06", "add_blob/descriptor-length".into(), format!("add_blob returned length {} for {} bytes", b.length, data.len())));
                        }
                        res.blobs.push((b, data.clone()))
                    }
                    Ok(Err(err)) => res.violations.push(viol(if judge == Judge::Hostile { "C10" } else { "C06" }, format!("reject/add_blob/{}", err_class(&err)), err_str(&err))),
                    Err(_) => return res,
                }
            }
            Item::Img(spec) => {
                let r = call!("add_image", w.add_image(&spec.guid));
                let mut iw = match r {
                    Ok(Ok(iw)) => iw,
                    Ok(Err(err)) => {
                        res.violations.push(viol(pj, format!("reject/add_image/{}", err_class(&err)), err_str(&err)));
                        continue;
                    }
                    Err(_) => return res,
                };
                let m = &spec.meta;
                if let Some(v) = &m.name {
                    iw.set_name(v);
                }
                if let Some(v) = &m.description {
                    iw.set_description(v);
                }
                if let Some(v) = &m.pointcloud_guid {
                    iw.set_pointcloud_guid(v);
                }
                if let Some(v) = &m.transform {
                    iw.set_transform(v.clone());
                }
                if let Some(v) = &m.acquisition {
                    iw.set_acquisition(v.clone());
                }
                if let Some(v) = &m.sensor_vendor {
                    iw.set_sensor_vendor(v);
                }
                if let Some(v) = &m.sensor_model {
                    iw.set_sensor_model(v);
                }
                if let Some(v) = &m.sensor_serial {
                    iw.set_sensor_serial(v);
                }
                let mut ok = true;
                if let Some(rep) = &spec.visual {
                    let mut data = PieceReader::new(&rep.data, scene.src_salt);
                    let mut mask_slice = PieceReader::new(rep.mask.as_deref().unwrap_or(&[]), scene.src_salt.wrapping_add(1));
                    let mask: Option<&mut dyn Read> = if rep.mask.is_some() { Some(&mut mask_slice) } else { None };
                    let r = call!(
                        "add_visual_reference",
                        iw.add_visual_reference(img_format(rep.png), &mut data, VisualReferenceImageProperties { width: rep.width, height: rep.height }, mask)
                    );
                    match r {
                        Ok(Ok(())) => {}
                        Ok(Err(err)) => {
                            ok = false;
                            res.violations.push(viol(pj, format!("reject/add_visual_reference/{}", err_class(&err)), err_str(&err)));
                        }
                        Err(_) => return res,
                    }
                }
                if let Some((kind, rep)) = &spec.proj {
                    let r = call!("add_projection", add_proj(&mut iw, kind, rep, scene.src_salt));
                    match r {
                        Ok(Ok(())) => {}
                        Ok(Err(err)) => {
                            ok = false;
                            res.violations.push(viol(pj, format!("reject/add_projection/{}", err_class(&err)), err_str(&err)));
                        }
                        Err(_) => return res,
                    }
                }
                if let Some((kind, rep)) = &spec.second_proj {
                    let before = dev.len();
                    let r = call!("add_projection(second)", add_proj(&mut iw, kind, rep, scene.src_salt));
                    match r {
                        Ok(Ok(())) => res.violations.push(viol("C10", "accept/second-projection".into(), "second projection accepted".into())),
                        Ok(Err(_)) => {
                            let _ = before;
                        }
                        Err(_) => return res,
                    }
                }
                if spec.abandon || !ok {
                    continue; // dropped without finalize: contributes nothing
                }
                let r = call!("ImageWriter::finalize", iw.finalize());
                match r {
                    Ok(Ok(())) => res.imgs.push(ExpImg { spec: spec.clone() }),
                    Ok(Err(err)) => {
                        if spec.visual.is_some() || spec.proj.is_some() {
                            res.violations.push(viol(pj, format!("reject/image-finalize/{}", err_class(&err)), err_str(&err)));
                        }
                    }
                    Err(_) => return res,
                }
            }
            Item::Pc(spec) => {
                let conforms = prototype_conforms(&spec.prototype, &res.exts);
                let r = call!("add_pointcloud", w.add_pointcloud(&spec.guid, spec.prototype.clone()));
                let mut pw = match r {
                    Ok(Ok(pw)) => {
                        if let Err(why) = conforms {
                            res.violations.push(viol("C10", format!("accept/prototype/{}", why), format!("rule-breaking prototype accepted: {}", proto_str(&spec.prototype))));
                            // content is undefined from here on; do not go further with this program
                            drop(pw);
                            res.calls.push(CallRec { no: call_no, op: "stop-after-bad-prototype".into(), ok: true, err: None, panic: None });
                            return res;
                        }
                        pw
                    }
                    Ok(Err(err)) => {
                        if conforms.is_ok() && !proto_too_wide(&spec.prototype) {
                            res.violations.push(viol(
                                pj,
                                format!("reject/add_pointcloud/{}", err_class(&err)),
                                format!("conforming prototype rejected: {} :: {}", err_str(&err), proto_str(&spec.prototype)),
                            ));
                        }
                        continue;
                    }
                    Err(_) => return res,
                };
                apply_pc_meta(&mut pw, &spec.meta);
                let mut exp = ExpPc { guid: spec.guid.clone(), prototype: spec.prototype.clone(), points: Vec::new(), meta: spec.meta.clone(), tainted: false };
                let mut stop = false;
                for (pi, pt) in spec.points.iter().enumerate() {
                    let fits = point_fits(&spec.prototype, pt);
                    call_no += 1;
                    dev.set_call(call_no);
                    let r = guarded(|| pw.add_point(pt.clone()));
                    dev.set_call(0);
                    if scene.stop_on_err {
                        if let Ok(Err(e)) = &r {
                            res.calls.push(CallRec { no: call_no, op: "add_point".into(), ok: false, err: Some(err_str(e)), panic: None });
                            res.stopped_on_err = true;
                            return res;
                        }
                    }
                    match r {
                        Ok(Ok(())) => {
                            if let Err(why) = fits {
                                exp.tainted = true;
                                res.violations.push(viol(
                                    "C10",
                                    format!("accept/value/{}", why),
                                    format!("add_point accepted a value vector that does not fit ({}) at point {}: {} for {}", why, pi, raw_str(pt), proto_str(&spec.prototype)),
                                ));
                            } else {
                                exp.points.push(pt.clone());
                            }
                        }
                        Ok(Err(err)) => {
                            if fits.is_ok() {
                                res.violations.push(viol(pj, format!("reject/add_point/{}", err_class(&err)), format!("fitting point rejected: {} :: {}", err_str(&err), raw_str(pt))));
                                stop = true;
                                break;
                            }
                        }
                        Err(p) => {
                            res.panicked = true;
                            res.calls.push(CallRec { no: call_no, op: "add_point".into(), ok: false, err: None, panic: Some(p.clone()) });
                            res.violations.push(viol(pj, format!("panic/add_point/{}", panic_sig(&p)), format!("add_point panicked: {} :: point {} = {} for {}", p, pi, raw_str(pt), proto_str(&spec.prototype))));
                            return res;
                        }
                    }
                }
                res.calls.push(CallRec { no: call_no, op: format!("add_point x{}", spec.points.len()), ok: true, err: None, panic: None });
                if spec.abandon || stop {
                    continue;
                }
                let r = call!("PointCloudWriter::finalize", pw.finalize());
                match r {
                    Ok(Ok(())) => res.pcs.push(exp),
                    Ok(Err(err)) => {
                        if !exp.tainted {
                            res.violations.push(viol(pj, format!("reject/pc-finalize/{}", err_class(&err)), err_str(&err)));
                        }
                        // section is broken now; stop the program here (unless the caller is one that carries on)
                        if scene.carry_on {
                            continue;
                        }
                        return res;
                    }
                    Err(_) => return res,
                }
            }
        }
    }
    if scene.no_finalize {
        drop(w);
        return res;
    }
    res.finalize_call_no = Some(call_no + 1);
    let recorded = std::cell::RefCell::new(None::<String>);
    let r = match scene.xml_mode {
        XmlMode::Plain => call!("E57Writer::finalize", w.finalize()),
        XmlMode::Identity => call!(
            "E57Writer::finalize_customized_xml",
            w.finalize_customized_xml(|x| {
                *recorded.borrow_mut() = Some(x.clone());
                Ok(x)
            })
        ),
        XmlMode::TrimEnd => call!(
            "E57Writer::finalize_customized_xml",
            w.finalize_customized_xml(|x| {
                let y = x.trim_end().to_string();
                *recorded.borrow_mut() = Some(y.clone());
                Ok(y)
            })
        ),
        XmlMode::TrailingBlanks => call!(
            "E57Writer::finalize_customized_xml",
            w.finalize_customized_xml(|x| {
                let y = format!("{}<!-- no line break behind this -->   ", x.trim_end());
                *recorded.borrow_mut() = Some(y.clone());
                Ok(y)
            })
        ),
        XmlMode::AppendComment => call!(
            "E57Writer::finalize_customized_xml",
            w.finalize_customized_xml(|x| {
                let y = format!("{}<!-- harness -->\n", x);
                *recorded.borrow_mut() = Some(y.clone());
                Ok(y)
            })
        ),
    };
    match r {
        Ok(Ok(())) => res.finalized = true,
        // an empty file GUID is documented as not allowed: rejecting it (here or earlier) is correct
        Ok(Err(_)) if scene.guid.is_empty() => {}
        Ok(Err(err)) => res.violations.push(viol(pj, format!("reject/finalize/{}", err_class(&err)), err_str(&err))),
        Err(_) => return res,
    }
    res.xml_written = recorded.into_inner();
    drop(w);
    res
}

/// URL that an XML attribute value can carry verbatim
pub fn url_ok(_u: &str) -> bool {
    true
}
