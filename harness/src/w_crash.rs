//! Workload "crash" (C15): an interrupted write is never mistaken for a complete file.
//! A small writer program runs once on a recording device; for every prefix of its device
//! writes and for cut positions inside the next write (torn writes) the crash image is built
//! and judged against the completed file. Also: the writer dropped without finalize after
//! every item.

use crate::dev::{Dev, OpKind};
use crate::json::J;
use crate::obs::*;
use crate::rng::Rng;
use crate::scene::*;
use crate::w_crc::{baseline, judge_variant, Baseline};
use crate::{Args, Reporter};
use e57::*;
use std::io::Cursor;

fn small_scene(r: &mut Rng, cover: &mut crate::Cover) -> Scene {
    let mut k = Knobs::base();
    k.max_items = 4;
    k.big_points = false;
    k.max_records = 8;
    let mut s = gen_scene(r, &k, cover);
    let mut has = false;
    for it in s.items.iter_mut() {
        match it {
            Item::Pc(pc) => {
                has = true;
                pc.meta.intensity_limits = None;
                pc.meta.color_limits = None;
                if pc.points.len() > 40 {
                    pc.points.truncate(40);
                }
            }
            Item::Blob(b) => b.truncate(1800),
            _ => {}
        }
    }
    if !has {
        let mut k2 = k.clone();
        k2.max_items = 1;
        let pc = gen_pc(r, &k2, &[], cover);
        s.items.push(Item::Pc(PcSpec { meta: PcMeta::default(), ..pc }));
    }
    s
}

struct W {
    pos: u64,
    data: Vec<u8>,
    call: u32,
}

fn build_image(ws: &[W], k: usize, cut: usize) -> Vec<u8> {
    build_image_on(&[], ws, k, cut)
}

/// the crash image when the device held `init` before the first write
fn build_image_on(init: &[u8], ws: &[W], k: usize, cut: usize) -> Vec<u8> {
    let mut img: Vec<u8> = init.to_vec();
    let put = |img: &mut Vec<u8>, pos: u64, d: &[u8]| {
        let p = pos as usize;
        if p + d.len() > img.len() {
            img.resize(p + d.len(), 0);
        }
        img[p..p + d.len()].copy_from_slice(d);
    };
    for w in &ws[..k] {
        put(&mut img, w.pos, &w.data);
    }
    if cut > 0 && k < ws.len() {
        let c = cut.min(ws[k].data.len());
        put(&mut img, ws[k].pos, &ws[k].data[..c]);
    }
    img
}

fn judge_image(img: &[u8], base: &Baseline, before_finalize: bool, r: &mut Rng, complete: &[u8]) -> (bool, Option<(String, String)>) {
    // accepted?
    let rd = guarded(|| E57Reader::new(Cursor::new(img.to_vec())));
    match rd {
        Err(p) => return (false, Some((format!("panic/E57Reader::new/{}", panic_sig(&p)), p))),
        Ok(Err(_)) => return (false, None),
        Ok(Ok(rd)) => {
            if before_finalize {
                return (true, Some(("accepted-before-finalize".into(), format!("an image from before the top-level finalize call was accepted ({} bytes); it lists {} point clouds and {} images", img.len(), rd.pointclouds().len(), rd.images().len()))));
            }
        }
    }
    // "accepts what is on the device only if it is already complete": every byte the completed file holds
    // must already be there (an accepted image may only differ where the recorded writes rewrite identical bytes)
    if img != complete {
        let first = img.iter().zip(complete.iter()).position(|(a, b)| a != b).unwrap_or(img.len().min(complete.len()));
        return (true, Some(("accepted-incomplete-image".into(), format!("the reader accepts an image of {} bytes that differs from the completed file ({} bytes) first at byte {} (page {}, in-page {})", img.len(), complete.len(), first, first / 1024, first % 1024))));
    }
    // accepted: listing and all reads must match the completed file (judge_variant re-opens and compares everything)
    let o = judge_variant(img, base, r, false, "crash-image");
    let v = o.viol.map(|(s, d)| {
        // validate_crc is not part of this property
        (s, d)
    });
    (true, v)
}

pub fn run(a: &Args, rep: &mut Reporter) {
    let (done, reason) = crate::run_cases(a, rep, |idx, cs, rep| {
        let mut r = Rng::new(cs);
        let mut cover = std::mem::take(&mut rep.cover);
        let scene = small_scene(&mut r, &mut cover);
        let dev = Dev::empty();
        dev.set_record(true, true);
        let run = run_scene(&scene, dev.clone(), Judge::Conforming);
        if !run.finalized {
            rep.stat("programs_not_finalized", 1);
            rep.cover = cover;
            return;
        }
        let ops = dev.take_ops();
        let complete = dev.bytes();
        let fin_call = run.finalize_call_no.unwrap_or(u32::MAX);
        let ws: Vec<W> = ops.iter().filter(|o| o.kind == OpKind::Write && o.ok && o.data.as_ref().map_or(false, |d| !d.is_empty())).map(|o| W { pos: o.pos, data: o.data.clone().unwrap_or_default(), call: o.api_call }).collect();
        // the replayed full sequence must reproduce the completed file (self-check of the recorder)
        if build_image(&ws, ws.len(), 0) != complete {
            rep.inconclusive(idx, "recorded write sequence does not reproduce the completed file");
            rep.cover = cover;
            return;
        }
        let extra: Vec<Blob> = run.blobs.iter().map(|(b, _)| b.clone()).collect();
        let base = match baseline(&complete, &extra) {
            Some(b) => b,
            None => {
                rep.stat("baseline_failed", 1);
                rep.cover = cover;
                return;
            }
        };
        rep.stat("programs", 1);
        rep.stat("device_writes", ws.len() as u64);
        cover.hit_num("program_shape", crate::rng::hash_str(&format!("{:?}", run.calls.iter().map(|c| c.op.clone()).collect::<Vec<_>>())) >> 8);
        let first_fin_write = ws.iter().position(|w| w.call >= fin_call).unwrap_or(ws.len());
        let mut images = 0u64;
        let mut rejected = 0u64;
        let mut accepted_equal = 0u64;
        for k in 0..=ws.len() {
            let mut cuts: Vec<usize> = vec![0];
            if k < ws.len() {
                let len = ws[k].data.len();
                for c in [1usize, 8, 16, 24, 32, 33, 34, 40, 47, 48, 49, 512, 1019, 1020, 1021, 1022, 1023] {
                    if c < len {
                        cuts.push(c);
                    }
                }
                if ws[k].pos == 0 {
                    for c in 1..48.min(len) {
                        cuts.push(c);
                    }
                }
                if len > 2 {
                    cuts.push(1 + r.usize(len - 1));
                    cuts.push(1 + r.usize(len - 1));
                }
                cuts.sort();
                cuts.dedup();
            }
            for cut in cuts {
                let img = build_image(&ws, k, cut);
                // "before finalize" = no byte of a write issued by the finalize call has reached the device
                let before = k < first_fin_write || (k == first_fin_write && cut == 0);
                images += 1;
                let kind = if k >= ws.len() { "complete" } else if ws[k].call >= fin_call { if ws[k].pos == 0 { "finalize-header-page" } else { "finalize-xml" } } else if ws[k].pos + (ws[k].data.len() as u64) < complete.len() as u64 && k > 0 && ws[k].pos < ws[k - 1].pos { "patch-back" } else { "append" };
                let cutc = match cut {
                    0 => "whole-writes",
                    1..=47 => "torn<48",
                    48..=1019 => "torn-payload",
                    _ => "torn-checksum",
                };
                cover.hit(&format!("cut:{}:{}", kind, cutc));
                let (accepted, v) = judge_image(&img, &base, before, &mut r, &complete);
                if accepted {
                    if v.is_none() {
                        accepted_equal += 1;
                    }
                } else {
                    rejected += 1;
                }
                if let Some((sig, d)) = v {
                    rep.violation("C15", &sig, idx, &format!("program {:?}; image = {} complete device writes + {} bytes of write #{} ({} of {} bytes at {}): {}", run.calls.iter().map(|c| c.op.as_str()).collect::<Vec<_>>(), k, cut, k, cutc, ws.get(k).map_or(0, |w| w.data.len()), ws.get(k).map_or(0, |w| w.pos), d));
                }
            }
        }
        // drop without finalize after every item prefix
        for j in 0..=scene.items.len() {
            let mut s2 = scene.clone();
            s2.items.truncate(j);
            s2.no_finalize = true;
            // also: abandon the last point cloud / image writer in the middle
            if j > 0 && r.bool() {
                match s2.items.last_mut() {
                    Some(Item::Pc(pc)) => pc.abandon = true,
                    Some(Item::Img(im)) => im.abandon = true,
                    _ => {}
                }
            }
            let d2 = Dev::empty();
            let _ = run_scene(&s2, d2.clone(), Judge::Conforming);
            let img = d2.bytes();
            images += 1;
            cover.hit("cut:dropped-without-finalize");
            let (accepted, v) = judge_image(&img, &base, true, &mut r, &complete);
            if !accepted {
                rejected += 1;
            }
            if let Some((sig, d)) = v {
                rep.violation("C15", &format!("dropped/{}", sig), idx, &format!("writer dropped without finalize after {} of {} items: {}", j, scene.items.len(), d));
            }
        }
        // ---------- a device that was used before: it still holds an older complete file (this program's). Either the
        // writer refuses such a device, or every crash image of the new write obeys the same rule - in particular the
        // old file must not stay acceptable while the new one is incomplete
        {
            let scene_b = small_scene(&mut r, &mut cover);
            let devb = Dev::new(complete.clone());
            devb.set_record(true, true);
            let runb = run_scene(&scene_b, devb.clone(), Judge::Conforming);
            if !runb.new_ok {
                rep.stat("used_device_refused", 1);
                cover.hit("used-device:refused");
            } else if runb.finalized {
                let opsb = devb.take_ops();
                let complete_b = devb.bytes();
                let fin_b = runb.finalize_call_no.unwrap_or(u32::MAX);
                let wsb: Vec<W> = opsb.iter().filter(|o| o.kind == OpKind::Write && o.ok && o.data.as_ref().map_or(false, |d| !d.is_empty())).map(|o| W { pos: o.pos, data: o.data.clone().unwrap_or_default(), call: o.api_call }).collect();
                let extra_b: Vec<Blob> = runb.blobs.iter().map(|(b, _)| b.clone()).collect();
                cover.hit("used-device:accepted");
                rep.stat("used_device_accepted", 1);
                if build_image_on(&complete, &wsb, wsb.len(), 0) == complete_b {
                    match baseline(&complete_b, &extra_b) {
                        Some(base_b) => {
                            let first_fin_b = wsb.iter().position(|w| w.call >= fin_b).unwrap_or(wsb.len());
                            for k in 0..=wsb.len() {
                                let mut cuts: Vec<usize> = vec![0];
                                if k < wsb.len() && wsb[k].data.len() > 2 {
                                    cuts.push(1 + r.usize(wsb[k].data.len() - 1));
                                }
                                for cut in cuts {
                                    let img = build_image_on(&complete, &wsb, k, cut);
                                    if k == wsb.len() || img == complete_b {
                                        continue;
                                    }
                                    images += 1;
                                    let before = k < first_fin_b || (k == first_fin_b && cut == 0);
                                    let (accepted, v) = judge_image(&img, &base_b, before, &mut r, &complete_b);
                                    if !accepted {
                                        rejected += 1;
                                    }
                                    if let Some((sig, d)) = v {
                                        rep.violation("C15", &format!("used-device/{}", sig), idx, &format!("device held an older complete file of {} bytes and the writer accepted it; image = old file + {} complete device writes + {} bytes of write #{}: {}", complete.len(), k, cut, k, d));
                                    }
                                }
                            }
                        }
                        None => {
                            // the writer accepted the used device and reported success, yet the result is no readable file
                            rep.violation("C15", "used-device/completed-file-unreadable", idx, &format!("device held an older complete file of {} bytes; the writer accepted it and every call up to finalize returned Ok, but the result cannot be read", complete.len()));
                        }
                    }
                } else {
                    rep.inconclusive(idx, "recorded write sequence on the used device does not reproduce the completed file");
                }
            }
        }
        rep.stat("images_built", images);
        rep.stat("images_rejected", rejected);
        rep.stat("images_accepted_and_equal", accepted_equal);
        if rep.samples < rep.max_samples {
            rep.sample(J::obj().set("case", J::i(idx as i128)).set("calls", J::Arr(run.calls.iter().take(20).map(|c| J::s(&c.op)).collect())).set("device_writes", J::u(ws.len())).set("first_write_of_finalize", J::u(first_fin_write)).set("images", J::i(images as i128)));
        }
        rep.cover = cover;
    });
    rep.finish(done, reason);
}
