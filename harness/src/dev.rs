//! M-DEV: instrumented in-memory device implementing Read + Write + Seek.
//! Records every operation, can shorten transfers by a schedule, inject one error at
//! operation index k (optionally transient), and count traffic per public call.

use crate::rng::Rng;
use std::cell::RefCell;
use std::io::{Error, ErrorKind, Read, Result, Seek, SeekFrom, Write};
use std::rc::Rc;

#[derive(Clone, Copy, Debug, PartialEq, Eq)]
pub enum OpKind {
    Read,
    Write,
    Seek,
    Flush,
}

#[derive(Clone, Debug)]
pub struct Op {
    pub kind: OpKind,
    pub pos: u64,
    pub len: usize,
    pub ok: bool,
    pub ret: u64,
    pub api_call: u32,
    pub data: Option<Vec<u8>>, // bytes actually written (for crash images)
}

#[derive(Clone)]
pub enum Chunking {
    Full,
    One,
    Small(usize),
    Rand(Rng),
    Alt(bool),
    /// like Rand but additionally returns ErrorKind::Interrupted now and then (must be transparent)
    RandIntr(Rng),
}

#[derive(Clone, Copy, Debug, PartialEq, Eq)]
pub enum FaultKind {
    Other,
    Eof,       // UnexpectedEof for reads, WriteZero for writes
    ShortZero, // read returns Ok(0) / write returns Ok(0) at this op (device "full"/truncated)
}

#[derive(Default, Clone, Copy, Debug)]
pub struct Counters {
    pub reads: u64,
    pub read_bytes: u64,
    pub writes: u64,
    pub write_bytes: u64,
    pub seeks: u64,
    pub flushes: u64,
}

pub struct DevState {
    pub data: Vec<u8>,
    pub pos: u64,
    pub record: bool,
    pub record_data: bool,
    pub ops: Vec<Op>,
    pub op_index: u64,
    pub fail_at: Option<(u64, FaultKind)>,
    pub fail_persistent: bool, // after the first hit every following op of any kind fails too
    pub fail_hit: Option<(u64, OpKind, u32)>,
    pub read_chunk: Chunking,
    pub write_chunk: Chunking,
    pub api_call: u32,
    pub ctr: Counters,
}

#[derive(Clone)]
pub struct Dev(pub Rc<RefCell<DevState>>);

impl Dev {
    pub fn new(data: Vec<u8>) -> Dev {
        Dev(Rc::new(RefCell::new(DevState {
            data,
            pos: 0,
            record: false,
            record_data: false,
            ops: Vec::new(),
            op_index: 0,
            fail_at: None,
            fail_persistent: false,
            fail_hit: None,
            read_chunk: Chunking::Full,
            write_chunk: Chunking::Full,
            api_call: 0,
            ctr: Counters::default(),
        })))
    }
    pub fn empty() -> Dev {
        Dev::new(Vec::new())
    }
    pub fn bytes(&self) -> Vec<u8> {
        self.0.borrow().data.clone()
    }
    pub fn len(&self) -> usize {
        self.0.borrow().data.len()
    }
    pub fn set_call(&self, c: u32) {
        self.0.borrow_mut().api_call = c;
    }
    pub fn reset_counters(&self) {
        self.0.borrow_mut().ctr = Counters::default();
    }
    pub fn counters(&self) -> Counters {
        self.0.borrow().ctr
    }
    pub fn ops_done(&self) -> u64 {
        self.0.borrow().op_index
    }
    pub fn fail_hit(&self) -> Option<(u64, OpKind, u32)> {
        self.0.borrow().fail_hit
    }
    pub fn set_fault(&self, at: u64, kind: FaultKind, persistent: bool) {
        let mut s = self.0.borrow_mut();
        s.fail_at = Some((at, kind));
        s.fail_persistent = persistent;
        s.fail_hit = None;
    }
    pub fn set_record(&self, rec: bool, data: bool) {
        let mut s = self.0.borrow_mut();
        s.record = rec;
        s.record_data = data;
    }
    pub fn set_chunking(&self, r: Chunking, w: Chunking) {
        let mut s = self.0.borrow_mut();
        s.read_chunk = r;
        s.write_chunk = w;
    }
    pub fn take_ops(&self) -> Vec<Op> {
        std::mem::take(&mut self.0.borrow_mut().ops)
    }
}

enum Next {
    Len(usize),
    Intr,
}

fn chunk_len(c: &mut Chunking, want: usize) -> Next {
    if want == 0 {
        return Next::Len(0);
    }
    match c {
        Chunking::Full => Next::Len(want),
        Chunking::One => Next::Len(1),
        Chunking::Small(k) => Next::Len(want.min((*k).max(1))),
        Chunking::Rand(r) => Next::Len(1 + r.usize(want)),
        Chunking::Alt(b) => {
            *b = !*b;
            if *b {
                Next::Len(1)
            } else {
                Next::Len(want)
            }
        }
        Chunking::RandIntr(r) => {
            if r.chance(1, 5) {
                Next::Intr
            } else {
                Next::Len(1 + r.usize(want))
            }
        }
    }
}

impl DevState {
    /// returns Some(err) if this op must fail
    fn fault(&mut self, kind: OpKind) -> Option<std::result::Result<(), FaultKind>> {
        let idx = self.op_index;
        self.op_index += 1;
        if let Some((at, fk)) = self.fail_at {
            let hit_now = idx == at;
            let after = self.fail_persistent && self.fail_hit.is_some();
            if hit_now || after {
                if self.fail_hit.is_none() {
                    self.fail_hit = Some((idx, kind, self.api_call));
                }
                return Some(Err(fk));
            }
        }
        None
    }
    fn log(&mut self, kind: OpKind, pos: u64, len: usize, ok: bool, ret: u64, data: Option<Vec<u8>>) {
        if self.record {
            self.ops.push(Op { kind, pos, len, ok, ret, api_call: self.api_call, data });
        }
    }
}

fn mk_err(kind: OpKind, fk: FaultKind) -> Error {
    match (fk, kind) {
        (FaultKind::Eof, OpKind::Read) => Error::new(ErrorKind::UnexpectedEof, "injected device fault (eof)"),
        (FaultKind::Eof, OpKind::Write) => Error::new(ErrorKind::WriteZero, "injected device fault (write zero)"),
        _ => Error::new(ErrorKind::Other, "injected device fault"),
    }
}

impl Read for Dev {
    fn read(&mut self, buf: &mut [u8]) -> Result<usize> {
        let mut s = self.0.borrow_mut();
        let pos = s.pos;
        if let Some(Err(fk)) = s.fault(OpKind::Read) {
            s.ctr.reads += 1;
            if fk == FaultKind::ShortZero {
                s.log(OpKind::Read, pos, buf.len(), true, 0, None);
                return Ok(0);
            }
            s.log(OpKind::Read, pos, buf.len(), false, 0, None);
            return Err(mk_err(OpKind::Read, fk));
        }
        let avail = (s.data.len() as u64).saturating_sub(pos) as usize;
        let want = buf.len().min(avail);
        let mut rc = std::mem::replace(&mut s.read_chunk, Chunking::Full);
        let n = chunk_len(&mut rc, want);
        s.read_chunk = rc;
        s.ctr.reads += 1;
        match n {
            Next::Intr => {
                s.log(OpKind::Read, pos, buf.len(), false, 0, None);
                Err(Error::new(ErrorKind::Interrupted, "interrupted"))
            }
            Next::Len(n) => {
                if n > 0 {
                    let p = pos as usize;
                    buf[..n].copy_from_slice(&s.data[p..p + n]);
                }
                s.pos += n as u64;
                s.ctr.read_bytes += n as u64;
                s.log(OpKind::Read, pos, buf.len(), true, n as u64, None);
                Ok(n)
            }
        }
    }
}

impl Write for Dev {
    fn write(&mut self, buf: &[u8]) -> Result<usize> {
        let mut s = self.0.borrow_mut();
        let pos = s.pos;
        if let Some(Err(fk)) = s.fault(OpKind::Write) {
            s.ctr.writes += 1;
            if fk == FaultKind::ShortZero {
                s.log(OpKind::Write, pos, buf.len(), true, 0, Some(Vec::new()));
                return Ok(0);
            }
            s.log(OpKind::Write, pos, buf.len(), false, 0, None);
            return Err(mk_err(OpKind::Write, fk));
        }
        let mut wc = std::mem::replace(&mut s.write_chunk, Chunking::Full);
        let n = chunk_len(&mut wc, buf.len());
        s.write_chunk = wc;
        s.ctr.writes += 1;
        match n {
            Next::Intr => {
                s.log(OpKind::Write, pos, buf.len(), false, 0, None);
                Err(Error::new(ErrorKind::Interrupted, "interrupted"))
            }
            Next::Len(n) => {
                if pos > (1u64 << 32) {
                    s.log(OpKind::Write, pos, buf.len(), false, 0, None);
                    return Err(Error::new(ErrorKind::Other, "device full (write beyond 4 GiB)"));
                }
                let p = pos as usize;
                if p + n > s.data.len() {
                    s.data.resize(p + n, 0);
                }
                s.data[p..p + n].copy_from_slice(&buf[..n]);
                s.pos += n as u64;
                s.ctr.write_bytes += n as u64;
                let d = if s.record_data { Some(buf[..n].to_vec()) } else { None };
                s.log(OpKind::Write, pos, buf.len(), true, n as u64, d);
                Ok(n)
            }
        }
    }
    fn flush(&mut self) -> Result<()> {
        let mut s = self.0.borrow_mut();
        let pos = s.pos;
        s.ctr.flushes += 1;
        if let Some(Err(fk)) = s.fault(OpKind::Flush) {
            if fk != FaultKind::ShortZero {
                s.log(OpKind::Flush, pos, 0, false, 0, None);
                return Err(mk_err(OpKind::Flush, fk));
            }
        }
        s.log(OpKind::Flush, pos, 0, true, 0, None);
        Ok(())
    }
}

impl Seek for Dev {
    fn seek(&mut self, to: SeekFrom) -> Result<u64> {
        let mut s = self.0.borrow_mut();
        let pos = s.pos;
        s.ctr.seeks += 1;
        if let Some(Err(fk)) = s.fault(OpKind::Seek) {
            if fk != FaultKind::ShortZero {
                s.log(OpKind::Seek, pos, 0, false, 0, None);
                return Err(mk_err(OpKind::Seek, fk));
            }
        }
        let new = match to {
            SeekFrom::Start(p) => p as i128,
            SeekFrom::End(d) => s.data.len() as i128 + d as i128,
            SeekFrom::Current(d) => pos as i128 + d as i128,
        };
        if new < 0 || new > u64::MAX as i128 {
            s.log(OpKind::Seek, pos, 0, false, 0, None);
            return Err(Error::new(ErrorKind::InvalidInput, "invalid seek to a negative or overflowing position"));
        }
        s.pos = new as u64;
        s.log(OpKind::Seek, pos, 0, true, new as u64, None);
        Ok(new as u64)
    }
}
