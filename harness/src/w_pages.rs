//! Workload "pages" (C11): the crate-private page layer driven directly through the
//! e57_verif hook, beside a logical-stream model. Bounded-exhaustive histories over an
//! operation alphabet, then random histories with patch-back patterns; read-side sequences.

use crate::crc::{log_to_phys, phys_to_log, FastCrc, PAGE, PAYLOAD};
use crate::dev::Dev;
use crate::json::J;
use crate::rng::Rng;
use crate::scene::guarded;
use crate::{Args, Reporter};
use e57::verif::{PagedReader, PagedWriter};
use std::io::{Read, Write};

#[derive(Clone, Copy, Debug, PartialEq)]
pub enum Op {
    W(usize),   // write_all of n bytes
    Raw(usize), // one Write::write call (short-count semantics)
    S(Pos),     // physical_seek
    F,          // flush
    A,          // align
    P,          // physical_position
    Z,          // physical_size
}

#[derive(Clone, Copy, Debug, PartialEq)]
pub enum Pos {
    Abs(u64),
    End,         // current physical size (after flush)
    EndPlus(u64),
    EndMinus(u64),
    Earlier,     // physical position remembered before the first write of the history
    InChecksum,  // last page start + 1020..1023
}

pub const ALPHABET: &[Op] = &[
    Op::W(0),
    Op::W(1),
    Op::W(3),
    Op::W(4),
    Op::W(5),
    Op::W(1016),
    Op::W(1019),
    Op::W(1020),
    Op::W(1021),
    Op::W(2040),
    Op::W(2041),
    Op::W(3067),
    Op::Raw(1500),
    Op::S(Pos::Abs(0)),
    Op::S(Pos::Abs(48)),
    Op::S(Pos::Abs(1019)),
    Op::S(Pos::Abs(1020)),
    Op::S(Pos::Abs(1024)),
    Op::S(Pos::Abs(1025)),
    Op::S(Pos::End),
    Op::S(Pos::EndPlus(1)),
    Op::S(Pos::EndMinus(1024)),
    Op::S(Pos::EndMinus(5)),
    Op::S(Pos::Earlier),
    Op::S(Pos::InChecksum),
    Op::F,
    Op::A,
    Op::P,
    Op::Z,
];

/// Logical-stream model of the writer side.
pub struct Model {
    pub log: Vec<u8>, // logical bytes, always zero padded to whole pages that were touched
    pub cur: usize,
    pub stamp: u8,
}

impl Model {
    pub fn new() -> Model {
        Model { log: Vec::new(), cur: 0, stamp: 1 }
    }
    pub fn pages(&self) -> usize {
        self.log.len() / PAYLOAD
    }
    pub fn phys_size(&self) -> u64 {
        (self.pages() * PAGE) as u64
    }
    fn touch(&mut self, upto: usize) {
        // make sure pages covering [0, upto) exist (zero filled)
        let need_pages = (upto + PAYLOAD - 1) / PAYLOAD;
        if need_pages * PAYLOAD > self.log.len() {
            self.log.resize(need_pages * PAYLOAD, 0);
        }
    }
    pub fn write(&mut self, data: &[u8]) {
        if data.is_empty() {
            return;
        }
        self.touch(self.cur + data.len());
        self.log[self.cur..self.cur + data.len()].copy_from_slice(data);
        self.cur += data.len();
    }
    pub fn pattern(&mut self, n: usize) -> Vec<u8> {
        // position stamped, never zero: a misplaced or missing byte is visible
        let s = self.stamp;
        self.stamp = self.stamp.wrapping_mul(7).wrapping_add(13) | 1;
        (0..n).map(|i| ((i as u8).wrapping_mul(3).wrapping_add(s)) | 0x80).collect()
    }
}

fn abs_state(m: &Model) -> u64 {
    let inpage = m.cur % PAYLOAD;
    let c = match inpage {
        0 => 0,
        1..=3 => 1,
        4..=1015 => 2,
        1016..=1018 => 3,
        _ => 4,
    };
    let page_exists = (m.cur / PAYLOAD) < m.pages();
    let at_end = m.cur >= m.log.len();
    let pages = m.pages().min(4) as u64;
    c + 5 * (page_exists as u64) + 10 * (at_end as u64) + 20 * pages + 100 * ((m.cur % 4) as u64)
}

pub struct HistoryResult {
    pub viol: Option<(String, String)>, // (signature tail, detail)
    pub ops_run: u64,
    pub flush_points: u64,
}

fn check_device(dev: &Dev, m: &Model, fc: &FastCrc, after: &str) -> Option<(String, String)> {
    let img = dev.bytes();
    if img.len() % PAGE != 0 {
        return Some((format!("flush-point/size-not-whole-pages/after={}", after), format!("device holds {} bytes", img.len())));
    }
    if img.len() as u64 != m.phys_size() {
        return Some((format!("flush-point/size/after={}", after), format!("device holds {} bytes ({} pages), model expects {} pages", img.len(), img.len() / PAGE, m.pages())));
    }
    if let Some(bad) = fc.bad_pages(&img) {
        if !bad.is_empty() {
            return Some((format!("flush-point/checksum/after={}", after), format!("pages with wrong checksum: {:?}", bad)));
        }
    }
    let log = crate::crc::logical(&img);
    if log != m.log {
        let first = log.iter().zip(m.log.iter()).position(|(a, b)| a != b).unwrap_or(0);
        return Some((format!("flush-point/payload/after={}", after), format!("payload differs from the logical stream first at logical byte {} (page {}, in-page {}): device {:#x} model {:#x}", first, first / PAYLOAD, first % PAYLOAD, log[first], m.log[first])));
    }
    None
}

fn op_name(op: &Op) -> String {
    match op {
        Op::S(Pos::InChecksum) | Op::S(Pos::Abs(1020)) => "rejected-seek-checksum".into(),
        Op::S(Pos::EndPlus(_)) => "rejected-seek-past-end".into(),
        Op::S(_) => "seek".into(),
        Op::W(_) => "write".into(),
        Op::Raw(_) => "raw-write".into(),
        Op::F => "flush".into(),
        Op::A => "align".into(),
        Op::P => "position".into(),
        Op::Z => "size".into(),
    }
}

/// Execute one history against the real PagedWriter and the model.
pub fn run_history(ops: &[Op], fc: &FastCrc, cover: &mut crate::Cover) -> HistoryResult {
    let dev = Dev::empty();
    let mut m = Model::new();
    let mut res = HistoryResult { viol: None, ops_run: 0, flush_points: 0 };
    let mut w = match PagedWriter::new(dev.clone()) {
        Ok(w) => w,
        Err(e) => {
            res.viol = Some(("new/error".into(), format!("{}", e)));
            return res;
        }
    };
    let mut earlier: Option<u64> = None;
    let mut last_rejected = false;
    let mut prev_state = abs_state(&m);
    for (i, op) in ops.iter().enumerate() {
        res.ops_run += 1;
        let name = op_name(op);
        let after = if last_rejected { format!("{}-following-rejected-seek", name) } else { name.clone() };
        let r: std::result::Result<Option<(String, String)>, String> = guarded(|| -> Option<(String, String)> {
            match op {
                Op::W(n) => {
                    if earlier.is_none() && *n > 0 {
                        earlier = Some(log_to_phys(m.cur as u64));
                    }
                    let data = m.pattern(*n);
                    match w.write_all(&data) {
                        Ok(()) => m.write(&data),
                        Err(e) => return Some((format!("write_all/error/{}", after), format!("op {} {:?}: {}", i, op, e))),
                    }
                    None
                }
                Op::Raw(n) => {
                    let data = m.pattern(*n);
                    let expect = (*n).min(PAYLOAD - m.cur % PAYLOAD);
                    match w.write(&data) {
                        Ok(k) => {
                            if k == 0 && *n > 0 || k > *n {
                                return Some((format!("write/count/{}", after), format!("write({}) returned {}", n, k)));
                            }
                            // any positive short count is legal for Write::write; the bytes accepted must land
                            let _ = expect;
                            m.write(&data[..k]);
                            None
                        }
                        Err(e) => Some((format!("write/error/{}", after), format!("{}", e))),
                    }
                }
                Op::S(pos) => {
                    // a seek is a flush point: the device must be consistent afterwards, accepted or not
                    let size = m.phys_size();
                    let p = match pos {
                        Pos::Abs(p) => *p,
                        Pos::End => size,
                        Pos::EndPlus(k) => size + k,
                        Pos::EndMinus(k) => size.saturating_sub(*k),
                        Pos::Earlier => earlier.unwrap_or(0),
                        Pos::InChecksum => (size.saturating_sub(PAGE as u64)) / PAGE as u64 * PAGE as u64 + 1020 + (i as u64 % 4),
                    };
                    let legal = p <= size && (p % PAGE as u64) < PAYLOAD as u64;
                    let r = w.physical_seek(p);
                    match (r, legal) {
                        (Ok(()), true) => {
                            m.cur = phys_to_log(p) as usize;
                            last_rejected = false;
                        }
                        (Err(_), false) => {
                            // rejected: the model says nothing changes. A rejected seek is not a flush point
                            // (the layer may refuse it before touching the device), so the device is not judged here;
                            // whatever it did shows at the next flush point.
                            last_rejected = true;
                            return None;
                        }
                        (Ok(()), false) => return Some((format!("seek/accepted-illegal/{}", after), format!("physical_seek({}) accepted; size {}", p, size))),
                        (Err(e), true) => return Some((format!("seek/rejected-legal/{}", after), format!("physical_seek({}) rejected ({}); size {}", p, e, size))),
                    }
                    res.flush_points += 1;
                    check_device(&dev, &m, fc, &after)
                }
                Op::F => {
                    if let Err(e) = w.flush() {
                        return Some((format!("flush/error/{}", after), format!("{}", e)));
                    }
                    res.flush_points += 1;
                    check_device(&dev, &m, fc, &after)
                }
                Op::A => {
                    if let Err(e) = w.align() {
                        return Some((format!("align/error/{}", after), format!("{}", e)));
                    }
                    let pad = (4 - m.cur % 4) % 4;
                    let z = vec![0u8; pad];
                    m.write(&z);
                    None
                }
                Op::P => match w.physical_position() {
                    Ok(p) => {
                        let e = log_to_phys(m.cur as u64);
                        if p != e {
                            Some((format!("position/{}", after), format!("physical_position() = {} but the logical cursor {} maps to {}", p, m.cur, e)))
                        } else {
                            None
                        }
                    }
                    Err(e) => Some((format!("position/error/{}", after), format!("{}", e))),
                },
                Op::Z => match w.physical_size() {
                    Ok(s) => {
                        res.flush_points += 1;
                        if s != m.phys_size() {
                            return Some((format!("size/{}", after), format!("physical_size() = {} model {} pages", s, m.pages())));
                        }
                        check_device(&dev, &m, fc, &after)
                    }
                    Err(e) => Some((format!("size/error/{}", after), format!("{}", e))),
                },
            }
        });
        match r {
            Err(p) => {
                res.viol = Some((format!("panic/{}", crate::scene::panic_sig(&p)), format!("op {} {:?}: {}", i, op, p)));
                return res;
            }
            Ok(Some(v)) => {
                res.viol = Some((v.0, format!("op {} of {:?}: {}", i, ops, v.1)));
                return res;
            }
            Ok(None) => {}
        }
        if !matches!(op, Op::S(_)) {
            // the "following a rejected seek" qualifier applies to the next flush point only
            if matches!(op, Op::F | Op::Z) {
                last_rejected = false;
            }
        }
        let st = abs_state(&m);
        cover.hit_num("abs_state", st);
        let opk: u64 = match op {
            Op::W(_) => 0,
            Op::Raw(_) => 1,
            Op::S(_) => 2,
            Op::F => 3,
            Op::A => 4,
            Op::P => 5,
            Op::Z => 6,
        };
        cover.hit_num("transition", (prev_state * 10 + opk) * 1000 + st);
        prev_state = st;
    }
    // drop = last flush point
    let after = if last_rejected { "drop-following-rejected-seek".to_string() } else { "drop".to_string() };
    match guarded(|| drop(w)) {
        Err(p) => {
            res.viol = Some((format!("panic/drop/{}", crate::scene::panic_sig(&p)), p));
            return res;
        }
        Ok(()) => {}
    }
    res.flush_points += 1;
    if let Some(v) = check_device(&dev, &m, fc, &after) {
        res.viol = Some((v.0, format!("after {:?}: {}", ops, v.1)));
        return res;
    }
    res
}

// ------------------------------------------------------------------ reader side

#[derive(Clone, Copy, Debug)]
pub enum ROp {
    Seek(u64),
    Read(usize),
    Exact(usize),
    Align,
}

/// Run a read-side sequence over an image (whose logical content is `log`); `bad_page`: a page
/// whose checksum is wrong (reads touching it must fail, all others must be unaffected).
pub fn run_reads(img: &[u8], log: &[u8], bad_page: Option<usize>, ops: &[ROp], cover: &mut crate::Cover) -> Option<(String, String)> {
    let dev = Dev::new(img.to_vec());
    let mut rd = match PagedReader::new(dev, PAGE as u64) {
        Ok(r) => r,
        Err(e) => return Some(("reader/new".into(), format!("{}", e))),
    };
    let total = log.len();
    let mut cur: usize = 0;
    for (i, op) in ops.iter().enumerate() {
        let r = guarded(|| -> Option<(String, String)> {
            match op {
                ROp::Seek(p) => {
                    let legal = (*p as usize) < img.len();
                    match (rd.seek_physical(*p), legal) {
                        (Ok(l), true) => {
                            let e = phys_to_log(*p);
                            if l != e {
                                return Some(("reader/seek-result".into(), format!("seek_physical({}) returned {} expected {}", p, l, e)));
                            }
                            cur = e as usize;
                            None
                        }
                        (Err(_), false) => None,
                        (Ok(_), false) => Some(("reader/seek-accepted-past-end".into(), format!("seek_physical({}) accepted, size {}", p, img.len()))),
                        (Err(e), true) => Some(("reader/seek-rejected".into(), format!("seek_physical({}) rejected: {}", p, e))),
                    }
                }
                ROp::Read(n) => {
                    let mut buf = vec![0xEEu8; *n];
                    let page = cur / PAYLOAD;
                    let expect_err = cur < total && *n > 0 && bad_page == Some(page);
                    match rd.read(&mut buf) {
                        Ok(k) => {
                            if expect_err {
                                return Some(("reader/read-from-bad-page".into(), format!("read({}) at logical {} (page {}) returned {} bytes although the page checksum is wrong", n, cur, page, k)));
                            }
                            if cur >= total || *n == 0 {
                                if k != 0 {
                                    return Some(("reader/read-past-end".into(), format!("read at end returned {}", k)));
                                }
                                return None;
                            }
                            if k == 0 || k > *n || cur + k > total {
                                return Some(("reader/read-count".into(), format!("read({}) at {} returned {}", n, cur, k)));
                            }
                            if buf[..k] != log[cur..cur + k] {
                                return Some(("reader/read-content".into(), format!("read({}) at logical {} returned other bytes than the logical stream", n, cur)));
                            }
                            cover.hit(if (cur + k) % PAYLOAD == 0 { "read:ends-at-page-end" } else { "read:inside-page" });
                            cur += k;
                            None
                        }
                        Err(e) => {
                            if expect_err || (bad_page == Some(page) && *n == 0) {
                                cover.hit("read:bad-page-error");
                                None
                            } else {
                                Some(("reader/read-error".into(), format!("read({}) at logical {} failed: {}", n, cur, e)))
                            }
                        }
                    }
                }
                ROp::Exact(n) => {
                    let mut buf = vec![0xEEu8; *n];
                    let fits = cur + *n <= total;
                    let touches_bad = match bad_page {
                        Some(b) if *n > 0 => {
                            let first = cur / PAYLOAD;
                            let last = (cur + *n - 1) / PAYLOAD;
                            first <= b && b <= last
                        }
                        _ => false,
                    };
                    match rd.read_exact(&mut buf) {
                        Ok(()) => {
                            if !fits {
                                return Some(("reader/read_exact-past-end".into(), format!("read_exact({}) at {} succeeded beyond the end {}", n, cur, total)));
                            }
                            if touches_bad {
                                return Some(("reader/read-from-bad-page".into(), format!("read_exact({}) at logical {} succeeded although it covers bad page {:?}", n, cur, bad_page)));
                            }
                            if buf[..] != log[cur..cur + *n] {
                                return Some(("reader/read-content".into(), format!("read_exact({}) at logical {} returned other bytes than the logical stream", n, cur)));
                            }
                            if *n > PAYLOAD {
                                cover.hit("read_exact:multi-page");
                            }
                            cur += *n;
                            None
                        }
                        Err(e) => {
                            if fits && !touches_bad {
                                return Some(("reader/read-error".into(), format!("read_exact({}) at logical {} failed: {}", n, cur, e)));
                            }
                            // cursor after a failed read_exact is unspecified: re-seek to a known place
                            cur = usize::MAX;
                            None
                        }
                    }
                }
                ROp::Align => {
                    let target = (cur + 3) / 4 * 4;
                    match rd.align() {
                        Ok(()) => {
                            if target > total {
                                return Some(("reader/align-past-end".into(), format!("align at {} accepted beyond end {}", cur, total)));
                            }
                            cur = target;
                            None
                        }
                        Err(e) => {
                            if target <= total {
                                Some(("reader/align-error".into(), format!("align at logical {} failed: {}", cur, e)))
                            } else {
                                None
                            }
                        }
                    }
                }
            }
        });
        match r {
            Err(p) => return Some((format!("reader/panic/{}", crate::scene::panic_sig(&p)), format!("op {} {:?}: {}", i, op, p))),
            Ok(Some(v)) => return Some((v.0, format!("read op {} of {:?}: {}", i, &ops[..=i], v.1))),
            Ok(None) => {}
        }
        if cur == usize::MAX {
            // need a seek to resynchronise
            cur = 0;
            if rd.seek_physical(0).is_err() {
                return Some(("reader/seek-rejected".into(), "seek_physical(0) rejected".into()));
            }
        }
    }
    None
}

fn gen_read_ops(r: &mut Rng, img_len: usize, n: usize) -> Vec<ROp> {
    let pages = (img_len / PAGE).max(1);
    (0..n)
        .map(|_| match r.usize(10) {
            0 | 1 => {
                let page = r.usize(pages);
                let inpage = *r.pick(&[0usize, 1, 3, 4, 47, 48, 500, 1015, 1016, 1018, 1019]);
                ROp::Seek((page * PAGE + inpage) as u64)
            }
            2 => ROp::Seek(img_len as u64 + r.below(3)),
            3 | 4 | 5 => ROp::Read(*r.pick(&[0usize, 1, 4, 1019, 1020, 1021, 4096, 7, 100])),
            6 | 7 => ROp::Exact(*r.pick(&[0usize, 1, 2, 4, 16, 32, 1019, 1020, 1021, 2041, 300])),
            _ => ROp::Align,
        })
        .collect()
}

pub fn run(a: &Args, rep: &mut Reporter) {
    let fc = FastCrc::new();
    let depth = a.get_u64("depth", 4) as u32;
    let asize = ALPHABET.len() as u64;
    let exhaustive_total = asize.pow(depth);
    let random_histories = a.get_u64("random", 20000);
    // case space: [0, exhaustive_total) = all histories of exactly `depth` ops (shorter ones are prefixes);
    // then `random_histories` random long histories with read-side sequences.
    let total = exhaustive_total + random_histories;
    let mut a2 = Args { workload: a.workload.clone(), seed: a.seed, shard: a.shard, shards: a.shards, cases: total.min(a.cases.max(1)), secs: a.secs, out: a.out.clone(), only: a.only, tier: a.tier.clone(), kv: a.kv.clone(), pos: a.pos.clone() };
    if a.flag("all") {
        a2.cases = total;
    }
    let (done, reason) = crate::run_cases(&a2, rep, |idx, cs, rep| {
        let mut cover = std::mem::take(&mut rep.cover);
        let mut r = Rng::new(cs);
        let ops: Vec<Op> = if idx < exhaustive_total {
            let mut v = Vec::new();
            let mut x = idx;
            for _ in 0..depth {
                v.push(ALPHABET[(x % asize) as usize]);
                x /= asize;
            }
            rep.stat("histories_exhaustive", 1);
            v
        } else {
            rep.stat("histories_random", 1);
            let n = 20 + r.usize(100);
            let mut v = Vec::new();
            for _ in 0..n {
                if r.chance(1, 6) {
                    // patch-back pattern of the real writers: remember, write, seek back, rewrite header, seek to end
                    v.push(Op::P);
                    v.push(Op::W(*r.pick(&[16usize, 32, 48])));
                    v.push(Op::W(r.usize(3000)));
                    v.push(Op::S(Pos::Earlier));
                    v.push(Op::W(*r.pick(&[16usize, 32])));
                    v.push(Op::S(Pos::End));
                    v.push(Op::A);
                } else if r.chance(1, 8) {
                    v.push(Op::W(r.usize(2100)));
                } else {
                    v.push(*r.pick(ALPHABET));
                }
            }
            v
        };
        let hr = run_history(&ops, &fc, &mut cover);
        rep.stat("operations", hr.ops_run);
        rep.stat("flush_points_checked", hr.flush_points);
        if let Some((sig, detail)) = &hr.viol {
            rep.violation("C11", sig, idx, detail);
        }
        if rep.samples < rep.max_samples && idx % 977 == 3 {
            rep.sample(J::obj().set("case", J::i(idx as i128)).set("history", J::s(format!("{:?}", ops))));
        }
        // read side: on random cases (and a slice of the exhaustive ones) build an image from a model stream
        if idx >= exhaustive_total || idx % 64 == 0 {
            let pages = 1 + r.usize(4);
            let log: Vec<u8> = (0..pages * PAYLOAD).map(|i| ((i * 7 + 3) % 251) as u8 | 1).collect();
            let img = crate::crc::paged(&log, &fc);
            let n = 5 + r.usize(30);
            let rops = gen_read_ops(&mut r, img.len(), n);
            rep.stat("read_sequences", 1);
            rep.stat("read_operations", rops.len() as u64);
            if let Some((sig, detail)) = run_reads(&img, &log, None, &rops, &mut cover) {
                rep.violation("C11", &sig, idx, &detail);
            }
            // one damaged page (payload or checksum byte)
            let bad = r.usize(pages);
            let mut img2 = img.clone();
            let off = bad * PAGE + r.usize(PAGE);
            img2[off] ^= 1 << r.usize(8);
            rep.stat("read_sequences_damaged", 1);
            if let Some((sig, detail)) = run_reads(&img2, &log, Some(bad), &rops, &mut cover) {
                rep.violation("C11", &format!("damaged/{}", sig), idx, &detail);
            }
        }
        rep.cover = cover;
    });
    rep.stat("alphabet_size", 0);
    rep.finish(done, reason);
}
