//! Independent CRC-32C (Castagnoli) written from the polynomial, bit by bit, and
//! page helpers. Shares no code with the crate under test.

pub const PAGE: usize = 1024;
pub const PAYLOAD: usize = 1020;

/// Bitwise CRC-32C: polynomial 0x1EDC6F41 (reflected 0x82F63B78), init and xorout 0xFFFFFFFF.
pub fn crc32c(data: &[u8]) -> u32 {
    // the reflected constant is derived here from the normal form so that the
    // definition is anchored in the published polynomial
    let poly_reflected = 0x1EDC6F41u32.reverse_bits();
    let mut crc = 0xFFFF_FFFFu32;
    for &b in data {
        crc ^= b as u32;
        for _ in 0..8 {
            let lsb = crc & 1;
            crc >>= 1;
            if lsb != 0 {
                crc ^= poly_reflected;
            }
        }
    }
    crc ^ 0xFFFF_FFFF
}

pub fn selftest() -> bool {
    crc32c(b"123456789") == 0xE306_9283
}

/// Table driven variant (same definition, 8x faster) for bulk re-sealing.
pub struct FastCrc {
    t: [u32; 256],
}
impl FastCrc {
    pub fn new() -> Self {
        let mut t = [0u32; 256];
        // table[i] = crc register after shifting byte i through the reflected polynomial
        let poly = 0x1EDC6F41u32.reverse_bits();
        for i in 0..256u32 {
            let mut c = i;
            for _ in 0..8 {
                c = if c & 1 != 0 { (c >> 1) ^ poly } else { c >> 1 };
            }
            t[i as usize] = c;
        }
        FastCrc { t }
    }
    pub fn calc(&self, data: &[u8]) -> u32 {
        let mut c = 0xFFFF_FFFFu32;
        for &b in data {
            c = self.t[((c ^ b as u32) & 0xFF) as usize] ^ (c >> 8);
        }
        c ^ 0xFFFF_FFFF
    }
    /// recompute the checksum of every whole page of `img`
    pub fn seal(&self, img: &mut [u8]) {
        let pages = img.len() / PAGE;
        for p in 0..pages {
            let s = p * PAGE;
            let c = self.calc(&img[s..s + PAYLOAD]);
            img[s + PAYLOAD..s + PAGE].copy_from_slice(&c.to_be_bytes());
        }
    }
    pub fn seal_page(&self, img: &mut [u8], p: usize) {
        let s = p * PAGE;
        if s + PAGE <= img.len() {
            let c = self.calc(&img[s..s + PAYLOAD]);
            img[s + PAYLOAD..s + PAGE].copy_from_slice(&c.to_be_bytes());
        }
    }
    /// indices of pages with wrong checksum; None if size is not a whole number of pages
    pub fn bad_pages(&self, img: &[u8]) -> Option<Vec<usize>> {
        if img.len() % PAGE != 0 {
            return None;
        }
        let mut bad = Vec::new();
        for p in 0..img.len() / PAGE {
            let s = p * PAGE;
            let c = self.calc(&img[s..s + PAYLOAD]);
            if img[s + PAYLOAD..s + PAGE] != c.to_be_bytes() {
                bad.push(p);
            }
        }
        Some(bad)
    }
}

pub fn phys_to_log(p: u64) -> u64 {
    p - (p / PAGE as u64) * 4
}
pub fn log_to_phys(l: u64) -> u64 {
    l + (l / PAYLOAD as u64) * 4
}

/// strip checksums: logical byte stream of an image consisting of whole pages
pub fn logical(img: &[u8]) -> Vec<u8> {
    let mut v = Vec::with_capacity(img.len());
    for p in 0..img.len() / PAGE {
        v.extend_from_slice(&img[p * PAGE..p * PAGE + PAYLOAD]);
    }
    v
}

/// build a paged image from a logical stream (zero padded to a whole page), sealed
pub fn paged(log: &[u8], fc: &FastCrc) -> Vec<u8> {
    let pages = (log.len() + PAYLOAD - 1) / PAYLOAD;
    let mut img = vec![0u8; pages * PAGE];
    for p in 0..pages {
        let s = p * PAYLOAD;
        let e = (s + PAYLOAD).min(log.len());
        img[p * PAGE..p * PAGE + (e - s)].copy_from_slice(&log[s..e]);
    }
    fc.seal(&mut img);
    img
}
