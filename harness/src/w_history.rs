//! Workload "history" (C17): read operations are independent of what was read before.
//! On one reader, random operation sequences with early termination, on intact files and
//! files with a damaged page / damaged section header, optionally with one transient device
//! error and short reads. Every result must equal the memoised result of the same operation
//! on a fresh reader.

use crate::crc::{FastCrc, PAGE};
use crate::dev::{Chunking, Dev, FaultKind};
use crate::json::J;
use crate::obs::*;
use crate::rng::Rng;
use crate::scene::*;
use crate::w_crc::all_blobs;
use crate::{Args, Reporter};
use e57::*;
use std::collections::HashMap;

#[derive(Clone, Debug, PartialEq, Eq, Hash)]
pub enum HOp {
    Raw(usize, usize),        // point cloud i, take k items then drop
    Simple(usize, usize, u8), // point cloud i, take k items, option vector
    Blob(usize),
    /// blob extraction into a caller-supplied writer that fails after k bytes (the operation fails; what
    /// matters is that nothing of it survives in the reader)
    BlobFailingSink(usize, usize),
    /// a descriptor the caller made itself (Blob::new): same start as blob i, another length
    BlobOtherLength(usize, u64),
    Meta,
}

fn kind(op: &HOp) -> &'static str {
    match op {
        HOp::Raw(..) => "raw",
        HOp::Simple(..) => "simple",
        HOp::Blob(..) => "blob",
        HOp::BlobFailingSink(..) => "blob-failing-sink",
        HOp::BlobOtherLength(..) => "blob-other-length",
        HOp::Meta => "meta",
    }
}

struct FailingSink {
    left: usize,
}
impl std::io::Write for FailingSink {
    fn write(&mut self, b: &[u8]) -> std::io::Result<usize> {
        if self.left == 0 {
            return Err(std::io::Error::new(std::io::ErrorKind::Other, "sink full"));
        }
        let n = b.len().min(self.left);
        self.left -= n;
        Ok(n)
    }
    fn flush(&mut self) -> std::io::Result<()> {
        Ok(())
    }
}

fn multi_scene(r: &mut Rng, cover: &mut crate::Cover) -> Scene {
    let mut k = Knobs::base();
    k.max_items = 0;
    k.big_points = false;
    k.max_records = 8;
    let mut s = gen_scene(r, &k, cover);
    let npc = 2 + r.usize(3);
    let nblob = 2 + r.usize(3);
    let mut items: Vec<Item> = Vec::new();
    // in a third of the files all point clouds carry the same GUID (nothing forbids that): whatever a reader
    // remembers per point cloud must not be keyed by a value two clouds can share
    let shared_guid = if r.chance(1, 3) {
        cover.hit("scene:pointclouds-share-guid");
        Some(format!("{{shared-{}}}", r.usize(1000)))
    } else {
        None
    };
    for _ in 0..npc {
        let mut pc = gen_pc(r, &k, &[], cover);
        if let Some(g) = &shared_guid {
            pc.guid = g.clone();
        }
        pc.meta = PcMeta::default();
        let n = *r.pick(&[3usize, 10, 60, 150]);
        pc.points = (0..n).map(|_| gen_point(r, &pc.prototype, false)).collect();
        items.push(Item::Pc(pc));
    }
    for i in 0..nblob {
        let len = *r.pick(&[5usize, 300, 1100, 2300]);
        items.push(Item::Blob(gen_blob_data(r, len, i as u8)));
    }
    r.shuffle(&mut items);
    s.items = items;
    s
}

/// execute one operation on a reader; result rendered as a comparable string
fn exec<T: std::io::Read + std::io::Seek>(rd: &mut E57Reader<T>, pcs: &[PointCloud], blobs: &[Blob], op: &HOp) -> std::result::Result<String, String> {
    let r = guarded(|| -> String {
        match op {
            HOp::Meta => format!("ok:{:016x}", crate::json::fnv64(meta_lines(rd, true).join("\n").as_bytes())),
            HOp::Blob(i) => match read_blob(rd, &blobs[*i]) {
                Ok((n, d)) => format!("ok:{}:{:016x}", n, crate::json::fnv64(&d)),
                Err(e) => format!("err:{}", e),
            },
            HOp::BlobOtherLength(i, len) => match read_blob(rd, &Blob::new(blobs[*i].offset, *len)) {
                Ok((n, d)) => format!("ok:{}:{:016x}", n, crate::json::fnv64(&d)),
                Err(e) => format!("err:{}", e),
            },
            HOp::BlobFailingSink(i, k) => {
                let mut sink = FailingSink { left: *k };
                match rd.blob(&blobs[*i], &mut sink) {
                    Ok(n) => format!("ok:{}", n),
                    Err(e) => format!("err:{}", err_variant(&e)),
                }
            }
            HOp::Raw(i, k) => match read_raw(rd, &pcs[*i], *k) {
                Ok(rr) => format!("{}|{}", rr.items.iter().map(|p| raw_str(p)).collect::<Vec<_>>().join(";"), rr.end.render()),
                Err(e) => format!("open-err:{}", e),
            },
            HOp::Simple(i, k, o) => match read_simple(rd, &pcs[*i], Opts(*o), *k) {
                Ok(rr) => format!("{}|{}", rr.items.iter().map(point_str).collect::<Vec<_>>().join(";"), rr.end.render()),
                Err(e) => format!("open-err:{}", e),
            },
        }
    });
    r
}

pub fn run(a: &Args, rep: &mut Reporter) {
    let fc = FastCrc::new();
    let (done, reason) = crate::run_cases(a, rep, |idx, cs, rep| {
        let mut r = Rng::new(cs);
        let mut cover = std::mem::take(&mut rep.cover);
        let scene = multi_scene(&mut r, &mut cover);
        let dev = Dev::empty();
        let run = run_scene(&scene, dev.clone(), Judge::Conforming);
        if !run.finalized {
            rep.stat("not_finalized", 1);
            rep.cover = cover;
            return;
        }
        let mut bytes = dev.bytes();
        let extra: Vec<Blob> = run.blobs.iter().map(|(b, _)| b.clone()).collect();
        // damage class
        let damage = r.usize(6);
        let (pcs, blobs) = match E57Reader::new(std::io::Cursor::new(bytes.clone())) {
            Ok(rd) => (rd.pointclouds(), all_blobs(&rd.images(), &extra)),
            Err(_) => {
                rep.stat("baseline_open_failed", 1);
                rep.cover = cover;
                return;
            }
        };
        let xml_page = {
            let rd = E57Reader::new(std::io::Cursor::new(bytes.clone())).ok();
            rd.map(|r| (r.header().phys_xml_offset / PAGE as u64) as usize).unwrap_or(1)
        };
        match damage {
            1 if xml_page > 1 => {
                // one damaged data page (checksum mismatch), not page 0 and not XML
                let p = 1 + r.usize(xml_page - 1);
                let off = p * PAGE + r.usize(PAGE);
                bytes[off] ^= 1 << r.usize(8);
                cover.hit("damage:page");
            }
            2 => {
                // damaged section header of one point cloud, checksums re-sealed
                let pc = r.pick(&pcs).clone();
                let off = pc.file_offset as usize;
                if off + 32 < bytes.len() && (off % PAGE) + 32 < 1020 {
                    match r.usize(3) {
                        0 => bytes[off] = 7,
                        1 => bytes[off + 16] ^= 0x40,
                        _ => bytes[off + 8] ^= 0x01,
                    }
                    fc.seal(&mut bytes);
                    cover.hit("damage:section-header");
                }
            }
            3 => {
                // damaged blob header
                if let Some(b) = blobs.first() {
                    let off = b.offset as usize;
                    if off + 16 < bytes.len() && (off % PAGE) + 16 < 1020 {
                        bytes[off] = 3;
                        fc.seal(&mut bytes);
                        cover.hit("damage:blob-header");
                    }
                }
            }
            4 if xml_page > 1 => {
                // the content of a data page altered and the page RE-SEALED: no checksum error, the failure (if any)
                // comes later, from what the bytes mean (an out-of-set state, a broken packet header, other values)
                for _ in 0..(1 + r.usize(3)) {
                    let p = 1 + r.usize(xml_page - 1);
                    let off = p * PAGE + r.usize(1020);
                    bytes[off] = *r.pick(&[0xFFu8, 0x57, 0x03, 0x00, 0x80]);
                }
                fc.seal(&mut bytes);
                cover.hit("damage:content-resealed");
            }
            5 if xml_page > 1 => {
                // one page whose checksum is stored in the wrong byte order (or complemented)
                let p = 1 + r.usize(xml_page - 1);
                let c = p * PAGE + 1020;
                if r.bool() {
                    bytes[c..c + 4].reverse();
                } else {
                    for b in bytes[c..c + 4].iter_mut() {
                        *b = !*b;
                    }
                }
                cover.hit("damage:checksum-form");
            }
            _ => cover.hit("damage:none"),
        }
        // fresh-reader results, memoised
        let mut memo: HashMap<HOp, std::result::Result<String, String>> = HashMap::new();
        let mut fresh = |op: &HOp, bytes: &Vec<u8>| -> std::result::Result<String, String> {
            if let Some(x) = memo.get(op) {
                return x.clone();
            }
            let res = match guarded(|| E57Reader::new(std::io::Cursor::new(bytes.clone()))) {
                Ok(Ok(mut rd)) => exec(&mut rd, &pcs, &blobs, op),
                Ok(Err(e)) => Ok(format!("cannot-open:{}", err_str(&e))),
                Err(p) => Err(p),
            };
            memo.insert(op.clone(), res.clone());
            res
        };
        // the sequence
        let n = 5 + r.usize(36);
        let gen_op = |r: &mut Rng| -> HOp {
            match r.usize(8) {
                0 | 1 | 2 => {
                    let i = r.usize(pcs.len());
                    let all = pcs[i].records as usize + 2;
                    HOp::Raw(i, *r.pick(&[0usize, 1, all / 2, all]))
                }
                3 | 4 => {
                    let i = r.usize(pcs.len());
                    let all = pcs[i].records as usize + 2;
                    HOp::Simple(i, *r.pick(&[0usize, 1, all / 2, all]), *r.pick(&[Opts::DEFAULT.0, 0, 63, 0b101010]))
                }
                5 if !blobs.is_empty() => HOp::Blob(r.usize(blobs.len())),
                6 if !blobs.is_empty() => {
                    if r.bool() {
                        HOp::Blob(r.usize(blobs.len()))
                    } else if r.bool() {
                        let i = r.usize(blobs.len());
                        let l = blobs[i].length;
                        HOp::BlobOtherLength(i, *r.pick(&[0u64, 1, 16, l / 2, l.saturating_sub(1), l + 1, l + 17, l * 2 + 5]))
                    } else {
                        HOp::BlobFailingSink(r.usize(blobs.len()), *r.pick(&[0usize, 1, 100, 1019, 1020, 1500]))
                    }
                }
                _ => HOp::Meta,
            }
        };
        let seq: Vec<HOp> = (0..n).map(|_| gen_op(&mut r)).collect();
        // device: optionally short reads + one transient error
        let transient = r.chance(1, 2);
        let rdev = Dev::new(bytes.clone());
        if r.chance(1, 2) {
            rdev.set_chunking(Chunking::Small(*r.pick(&[1usize, 7, 300, 500, 1023])), Chunking::Full);
            cover.hit("device:short-reads");
        }
        let d2 = rdev.clone();
        let mut rd = match guarded(move || E57Reader::new(d2)) {
            Ok(Ok(rd)) => rd,
            _ => {
                rep.stat("open_failed", 1);
                rep.cover = cover;
                return;
            }
        };
        rep.stat("sequences", 1);
        let fault_at_op = if transient { Some(r.usize(seq.len())) } else { None };
        let mut prev: Option<(&'static str, bool)> = None;
        let mut failed_before = false;
        for (oi, op) in seq.iter().enumerate() {
            let mut faulted = false;
            if fault_at_op == Some(oi) {
                // one transient device error somewhere inside this operation's traffic
                let at = rdev.ops_done() + r.below(6);
                rdev.set_fault(at, *r.pick(&[FaultKind::Other, FaultKind::Eof]), false);
                faulted = true;
            }
            let got = exec(&mut rd, &pcs, &blobs, op);
            let hit = faulted && rdev.fail_hit().is_some();
            if faulted && !hit {
                // the fault lies beyond this operation's traffic: disarm
                rdev.set_fault(u64::MAX, FaultKind::Other, false);
            }
            rep.stat("operations", 1);
            let want = fresh(op, &bytes);
            let k = kind(op);
            if let Some((pk, pf)) = prev {
                cover.hit(&format!("pair:{}{}->{}", pk, if pf { "(failed)" } else { "" }, k));
            }
            match (&got, &want) {
                (Err(p), _) => rep.violation("C17", &format!("panic/{}/{}", k, panic_sig(p)), idx, &format!("op {} {:?}: {}", oi, op, p)),
                (_, Err(_)) => {}
                (Ok(g), Ok(w)) => {
                    if hit {
                        // the operation that suffered the device error may fail (C16 says it must); not compared
                        cover.hit("transient-error-hit");
                        rep.stat("ops_with_transient_error", 1);
                    } else if g != w {
                        let class = if failed_before { "after-failure" } else { "after-success" };
                        rep.violation(
                            "C17",
                            &format!("different-result/{}/{}", k, class),
                            idx,
                            &format!("op {} {:?} on the used reader differs from a fresh reader (damage class {}, transient error earlier: {}); sequence so far {:?}; used: {} fresh: {}", oi, op, damage, fault_at_op.map_or(false, |f| f < oi), &seq[..=oi], g.chars().take(160).collect::<String>(), w.chars().take(160).collect::<String>()),
                        );
                        break;
                    } else if failed_before {
                        rep.stat("ops_equal_after_earlier_failure", 1);
                    }
                }
            }
            let this_failed = hit || got.as_ref().map_or(true, |g| g.contains("err:") || g.contains("|err"));
            if this_failed {
                failed_before = true;
                rep.stat("ops_failed", 1);
            }
            prev = Some((k, this_failed));
        }
        if rep.samples < rep.max_samples {
            rep.sample(J::obj().set("case", J::i(idx as i128)).set("pointclouds", J::u(pcs.len())).set("blobs", J::u(blobs.len())).set("damage_class", J::u(damage)).set("sequence", J::s(format!("{:?}", seq))));
        }
        cover.hit_num("sequence_identity", crate::rng::hash_str(&format!("{:?}{}", seq, damage)) >> 8);
        rep.cover = cover;
    });
    rep.finish(done, reason);
}
