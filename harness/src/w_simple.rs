//! Workload "simple": the simple iterator against the documented view of the raw data
//! (C05: all 64 option vectors on every file) and the normalisation model (C13).

use crate::dev::Dev;
use crate::json::J;
use crate::models::*;
use crate::obs::*;
use crate::rng::Rng;
use crate::scene::*;
use crate::{Args, Reporter};
use e57::*;
use std::io::Cursor;

fn tame_point(r: &mut Rng, proto: &[Record], wild: bool) -> RawValues {
    proto
        .iter()
        .map(|x| match &x.data_type {
            RecordDataType::Single { min: None, max: None } => RecordValue::Single(match r.usize(12) {
                0 => 0.0,
                1 => -0.0,
                2 if wild => f32::INFINITY,
                3 if wild => f32::NAN,
                4 => 1.0,
                _ => (r.range(-1_000_000, 1_000_000)) as f32 / 1000.0,
            }),
            RecordDataType::Double { min: None, max: None } => RecordValue::Double(match r.usize(12) {
                0 => 0.0,
                1 => -0.0,
                2 if wild => f64::NEG_INFINITY,
                3 if wild => f64::NAN,
                4 => -1.0,
                _ => (r.range(-1_000_000_000, 1_000_000_000)) as f64 / 100_000.0,
            }),
            d => gen_value(r, d, false),
        })
        .collect()
}

/// make scaled integer types tame (moderate scale) so that real values stay well-conditioned
fn tame_types(r: &mut Rng, proto: &mut [Record]) {
    for x in proto.iter_mut() {
        if let RecordDataType::ScaledInteger { min, max, .. } = x.data_type {
            let w = bits_for(min, max);
            if w > 40 {
                let w2 = 1 + r.usize(32);
                let (mi, ma) = gen_int_range(r, w2);
                x.data_type = RecordDataType::ScaledInteger { min: mi, max: ma, scale: *r.pick(&[1.0, 0.001, 0.5, -0.25]), offset: *r.pick(&[0.0, -100.0, 12.5]) };
            }
        }
        if let RecordDataType::Integer { min, max } = x.data_type {
            if bits_for(min, max) > 52 && !matches!(x.name, RecordName::RowIndex | RecordName::ColumnIndex | RecordName::ReturnIndex | RecordName::ReturnCount) {
                let w2 = 1 + r.usize(40);
                let (mi, ma) = gen_int_range(r, w2);
                x.data_type = RecordDataType::Integer { min: mi, max: ma };
            }
        }
    }
}

/// does any complete limit pair of the descriptor have min > max (as stored values of one type)?
fn has_reversed_limits(pc: &PointCloud) -> bool {
    let rev = |a: &Option<RecordValue>, b: &Option<RecordValue>| -> bool {
        match (a, b) {
            (Some(RecordValue::Single(x)), Some(RecordValue::Single(y))) => !(x <= y) || !x.is_finite() || !y.is_finite(),
            (Some(RecordValue::Double(x)), Some(RecordValue::Double(y))) => !(x <= y) || !x.is_finite() || !y.is_finite(),
            (Some(RecordValue::Integer(x)), Some(RecordValue::Integer(y))) => x > y,
            (Some(RecordValue::ScaledInteger(x)), Some(RecordValue::ScaledInteger(y))) => x > y,
            _ => false,
        }
    };
    let mut r = false;
    if let Some(l) = &pc.intensity_limits {
        r |= rev(&l.intensity_min, &l.intensity_max);
    }
    if let Some(l) = &pc.color_limits {
        r |= rev(&l.red_min, &l.red_max) || rev(&l.green_min, &l.green_max) || rev(&l.blue_min, &l.blue_max);
    }
    r
}

struct FileCase {
    bytes: Vec<u8>,
    label: String,
}

fn c05_make_file(r: &mut Rng, idx: u64, cover: &mut crate::Cover) -> Option<FileCase> {
    let mut k = Knobs::base();
    k.max_items = 3;
    k.big_points = r.chance(1, 12);
    k.nan_ok = false;
    let mut scene = gen_scene(r, &k, cover);
    let wild = r.chance(1, 6);
    // out-of-set invalid-state values: written under an extension name and renamed by the XML transformer
    let mut rename: Vec<(String, String)> = Vec::new();
    let want_bad_state = r.chance(1, 8);
    let mut has_pc = false;
    let mut new_items = Vec::new();
    let mut ext_added = false;
    for it in scene.items.drain(..) {
        match it {
            Item::Pc(mut pc) => {
                has_pc = true;
                tame_types(r, &mut pc.prototype);
                if want_bad_state && rename.is_empty() {
                    use RecordName::*;
                    let cands = [(CartesianInvalidState, "cartesianInvalidState", CartesianX, 3i64), (SphericalInvalidState, "sphericalInvalidState", SphericalAzimuth, 3), (IsColorInvalid, "isColorInvalid", ColorRed, 3), (IsIntensityInvalid, "isIntensityInvalid", Intensity, 3)];
                    let (flag, tag, needs, maxv) = r.pick(&cands).clone();
                    if pc.prototype.iter().any(|x| x.name == needs) {
                        pc.prototype.retain(|x| x.name != flag);
                        if !ext_added {
                            new_items.push(Item::Ext(Extension::new("hx", "http://harness.invalid/hx")));
                            ext_added = true;
                        }
                        let alias = format!("alias{}", tag);
                        pc.prototype.push(Record { name: Unknown { namespace: "hx".into(), name: alias.clone() }, data_type: RecordDataType::Integer { min: 0, max: maxv } });
                        rename.push((format!("hx:{}", alias), tag.to_string()));
                        cover.hit(&format!("c05:out-of-set-state:{}", tag));
                    }
                }
                if r.chance(1, 5) {
                    // extension attributes whose local names equal standard ones, in front of / between / behind the
                    // standard attributes: the simple view is a function of the STANDARD attributes only
                    if !ext_added {
                        new_items.push(Item::Ext(Extension::new("hx", "http://harness.invalid/hx")));
                        ext_added = true;
                    }
                    for _ in 0..(1 + r.usize(3)) {
                        let nm = *r.pick(&["intensity", "rowIndex", "columnIndex", "cartesianInvalidState", "sphericalInvalidState", "colorRed", "colorGreen", "timeStamp", "cartesianX", "sphericalRange", "isIntensityInvalid", "isColorInvalid", "returnIndex"]);
                        if pc.prototype.iter().any(|x| matches!(&x.name, RecordName::Unknown { name, .. } if name == nm)) {
                            continue;
                        }
                        let dt = match r.usize(3) {
                            0 => RecordDataType::Integer { min: 0, max: 2 },
                            1 => RecordDataType::Integer { min: 3, max: 200 },
                            _ => RecordDataType::Single { min: None, max: None },
                        };
                        let at = r.usize(pc.prototype.len() + 1);
                        pc.prototype.insert(at, Record { name: RecordName::Unknown { namespace: "hx".into(), name: nm.to_string() }, data_type: dt });
                        cover.hit(&format!("c05:extension-attribute-named-like-standard:{}", if at == 0 { "first" } else { "later" }));
                    }
                }
                let n = pc.points.len();
                pc.points = (0..n).map(|_| tame_point(r, &pc.prototype, wild)).collect();
                if r.chance(2, 3) {
                    pc.meta.transform = Some(Transform {
                        rotation: gen_unit_quat(r),
                        translation: Translation { x: (r.range(-10000, 10000)) as f64 / 10.0, y: (r.range(-10000, 10000)) as f64 / 10.0, z: (r.range(-100, 100)) as f64 },
                    });
                    cover.hit("c05:pose");
                } else {
                    pc.meta.transform = None;
                }
                new_items.push(Item::Pc(pc));
            }
            other => new_items.push(other),
        }
    }
    if !has_pc {
        return None;
    }
    scene.items = new_items;
    scene.xml_mode = XmlMode::Plain;
    let dev = Dev::empty();
    // run by hand when a rename is needed (finalize_customized_xml), otherwise the standard runner
    let bytes = if rename.is_empty() {
        let run = run_scene(&scene, dev.clone(), Judge::Conforming);
        if !run.finalized {
            return None;
        }
        dev.bytes()
    } else {
        let run = run_scene_custom(&scene, dev.clone(), &rename);
        if !run {
            return None;
        }
        dev.bytes()
    };
    Some(FileCase { bytes, label: format!("program:{}", idx) })
}

/// like run_scene for conforming scenes, but finalizes with a renaming XML transformer
fn run_scene_custom(scene: &Scene, dev: Dev, rename: &[(String, String)]) -> bool {
    let r = guarded(|| -> Result<()> {
        let mut w = E57Writer::new(dev.clone(), &scene.guid)?;
        for it in &scene.items {
            match it {
                Item::Ext(e) => w.register_extension(e.clone())?,
                Item::Blob(b) => {
                    let mut rd: &[u8] = b;
                    w.add_blob(&mut rd)?;
                }
                Item::Img(_) => {}
                Item::Pc(pc) => {
                    let mut pw = w.add_pointcloud(&pc.guid, pc.prototype.clone())?;
                    if pc.meta.transform.is_some() {
                        pw.set_transform(pc.meta.transform.clone());
                    }
                    for p in &pc.points {
                        pw.add_point(p.clone())?;
                    }
                    pw.finalize()?;
                }
            }
        }
        w.finalize_customized_xml(|x| {
            let mut y = x;
            for (from, to) in rename {
                y = y.replace(&format!("<{} ", from), &format!("<{} ", to)).replace(&format!("</{}>", from), &format!("</{}>", to));
            }
            Ok(y)
        })
    });
    matches!(r, Ok(Ok(())))
}

fn c05_check_file(fc: &FileCase, idx: u64, rep: &mut Reporter, cover: &mut crate::Cover, all_opts: bool, r: &mut Rng) {
    let mut rd = match guarded(|| E57Reader::new(Cursor::new(fc.bytes.clone()))) {
        Ok(Ok(rd)) => rd,
        Ok(Err(_)) => {
            rep.stat("files_not_opened", 1);
            return;
        }
        Err(p) => {
            rep.violation("C08", &format!("panic/E57Reader::new/{}", panic_sig(&p)), idx, &p);
            return;
        }
    };
    rep.stat("files", 1);
    for (pi, pc) in rd.pointclouds().iter().enumerate() {
        let raw = match guarded(|| read_raw(&mut rd, pc, 1 << 22)) {
            Ok(Ok(rr)) => rr,
            Ok(Err(_)) => {
                rep.stat("raw_open_failed", 1);
                continue;
            }
            Err(p) => {
                rep.violation("C08", &format!("panic/raw-iterator/{}", panic_sig(&p)), idx, &p);
                continue;
            }
        };
        rep.stat("pointclouds", 1);
        let subset: String = {
            let mut names: Vec<String> = pc.prototype.iter().map(|x| name_str(&x.name)).collect();
            names.sort();
            names.join(",")
        };
        cover.hit_num("attr_subset", crate::rng::hash_str(&subset) >> 8);
        let opt_list: Vec<u8> = if all_opts {
            (0..64u8).collect()
        } else {
            let mut v = vec![Opts::DEFAULT.0];
            for _ in 0..4 {
                v.push(r.usize(64) as u8);
            }
            v
        };
        for ob in opt_list {
            let o = Opts(ob);
            rep.stat("option_vectors_run", 1);
            let sr = match guarded(|| read_simple(&mut rd, pc, o, 1 << 22)) {
                Ok(Ok(sr)) => sr,
                Ok(Err(e)) => {
                    // creation failed although the raw iterator could be created: only legitimate for unusable limits (C13 domain)
                    if e.contains("Found invalid range") && has_reversed_limits(pc) {
                        // limits stored in the file are unusable (min > max): refusing them is not a C05 matter
                        rep.stat("simple_open_rejected_reversed_limits", 1);
                    } else {
                        let cls = if e.contains("Found invalid range") { "found-invalid-range".to_string() } else { class_of(&e) };
                        rep.violation("C05", &format!("simple-open-error/{}", cls), idx, &format!("{} pc{} opts {:06b}: {}", fc.label, pi, ob, e));
                    }
                    continue;
                }
                Err(p) => {
                    rep.violation("C08", &format!("panic/simple-iterator/{}", panic_sig(&p)), idx, &format!("{} pc{} opts {:06b}: {}", fc.label, pi, ob, p));
                    rep.violation("C05", &format!("panic/simple-iterator/{}", panic_sig(&p)), idx, &format!("{} pc{} opts {:06b}: {}", fc.label, pi, ob, p));
                    continue;
                }
            };
            // model over the raw items
            let mut first_model_err: Option<(usize, &'static str)> = None;
            let mut compared = 0u64;
            for (k, rawp) in raw.items.iter().enumerate() {
                match simple_point(rawp, pc, o) {
                    Err(why) => {
                        first_model_err = Some((k, why));
                        break;
                    }
                    Ok(m) => {
                        if k >= sr.items.len() {
                            continue; // keep scanning: a later point may carry an out-of-set state
                        }
                        let hint = rawp.iter().zip(pc.prototype.iter()).map(|(v, d)| crate::readback::model_f64(v, &d.data_type).abs()).filter(|x| x.is_finite()).fold(1.0, f64::max);
                        // non-finite inputs to a pose (also the identity pose of a cloud without one) make matrix and
                        // quaternion forms legitimately disagree (inf*0), and so do magnitudes (> 1e100) whose intermediate
                        // products overflow in one form but not in the other: not judged
                        let skip_pose = o.pose() && (hint > 1e100 || !rawp.iter().zip(pc.prototype.iter()).all(|(v, d)| crate::readback::model_f64(v, &d.data_type).is_finite()));
                        if skip_pose {
                            rep.stat("points_skipped_nonfinite_pose", 1);
                            continue;
                        }
                        compared += 1;
                        if m.cart_derived {
                            cover.hit("branch:spherical->cartesian");
                        }
                        if m.sph_derived {
                            cover.hit("branch:cartesian->spherical");
                        }
                        if m.color_from_intensity {
                            cover.hit("branch:intensity->color");
                        }
                        if m.posed {
                            cover.hit("branch:pose");
                        }
                        match &m.cart {
                            MC::Direction(_) => cover.hit("state:cartesian-direction"),
                            MC::Invalid => cover.hit("state:cartesian-invalid"),
                            _ => {}
                        }
                        if let Some(diff) = compare_point(&m, &sr.items[k], hint) {
                            let aspect = diff.split(' ').next().unwrap_or("?").split('(').next().unwrap_or("?").to_string();
                            rep.violation(
                                "C05",
                                &format!("point/{}", aspect),
                                idx,
                                &format!("{} pc{} point {} opts s2c={} c2s={} i2c={} ni={} nc={} pose={}: {} :: raw {}", fc.label, pi, k, o.s2c(), o.c2s(), o.i2c(), o.ni(), o.nc(), o.pose(), diff, raw_str(rawp)),
                            );
                            break;
                        }
                    }
                }
            }
            rep.stat("points_compared", compared);
            // count / termination
            match (&first_model_err, &raw.end, &sr.end) {
                (Some((k, why)), _, End::Err(e)) => {
                    cover.hit(&format!("expected-failure:{}", why));
                    if sr.items.len() > *k {
                        rep.violation("C05", "yield-past-invalid-state", idx, &format!("{} pc{}: yielded {} items although point {} has {}", fc.label, pi, sr.items.len(), k, why));
                    }
                    let _ = e;
                }
                (Some((k, why)), _, other) => {
                    rep.violation("C05", &format!("no-error-for/{}", why), idx, &format!("{} pc{}: point {} has {} but the simple iterator ended with {:?}", fc.label, pi, k, why, other.render()));
                }
                (None, End::Done, End::Done) => {
                    if sr.items.len() != raw.items.len() {
                        rep.violation("C05", "count", idx, &format!("{} pc{} opts {:06b}: raw yields {} simple yields {}", fc.label, pi, ob, raw.items.len(), sr.items.len()));
                    }
                }
                (None, End::Done, End::Err(e)) => {
                    rep.violation("C05", &format!("spurious-error/{}", class_of(e)), idx, &format!("{} pc{} opts {:06b}: raw iterator reads {} points without error, simple fails after {}: {}", fc.label, pi, ob, raw.items.len(), sr.items.len(), e));
                }
                (None, End::Err(_), End::Err(_)) => {
                    rep.stat("both_failed", 1);
                    if sr.items.len() > raw.items.len() {
                        rep.violation("C05", "count-after-raw-error", idx, &format!("{} pc{}: raw yields {} then fails; simple yields {}", fc.label, pi, raw.items.len(), sr.items.len()));
                    }
                }
                (None, End::Err(e), other) => {
                    rep.violation("C05", "missed-raw-error", idx, &format!("{} pc{}: raw fails ({}) simple ends {}", fc.label, pi, e, other.render()));
                }
                _ => {}
            }
        }
    }
}

// ------------------------------------------------------------------ C13

const CHANNELS: [&str; 4] = ["intensity", "red", "green", "blue"];

fn c13_case(r: &mut Rng, idx: u64, rep: &mut Reporter, cover: &mut crate::Cover) {
    use RecordName::*;
    let k = Knobs::base();
    let mut proto = vec![Record::CARTESIAN_X_F32, Record::CARTESIAN_Y_F32, Record::CARTESIAN_Z_F32];
    let gen_attr_type = |r: &mut Rng| -> RecordDataType {
        match r.usize(8) {
            0 => RecordDataType::Single { min: None, max: None },
            1 => RecordDataType::Double { min: None, max: None },
            2 => RecordDataType::Single { min: Some(0.0), max: Some(1.0) },
            3 => {
                let a = (r.range(-1000, 1000)) as f64 / 4.0;
                RecordDataType::Double { min: Some(a), max: Some(a + (r.range(0, 4000)) as f64 / 4.0) }
            }
            4 => gen_type(r, TypeClass::IntegerOnly, &k),
            5 => match r.usize(5) {
                0 => RecordDataType::Single { min: Some(0.0), max: None },
                1 => RecordDataType::Single { min: None, max: Some(255.0) },
                2 => RecordDataType::Double { min: Some(-5.5), max: None },
                3 => RecordDataType::Double { min: None, max: Some(1e6) },
                _ => gen_type(r, TypeClass::IntegerOnly, &k),
            },
            6 => RecordDataType::U8,
            _ => {
                let w = r.usize(65);
                let (mi, ma) = gen_int_range(r, w);
                let (s, o) = (*r.pick(&[1.0, 0.001, 0.5, -0.25, 1e-9, 1e6]), *r.pick(&[0.0, -100.0, 1e7]));
                RecordDataType::ScaledInteger { min: mi, max: ma, scale: s, offset: o }
            }
        }
    };
    let has_int = r.chance(4, 5);
    let has_col = r.chance(3, 5);
    if has_int {
        proto.push(Record { name: Intensity, data_type: gen_attr_type(r) });
    }
    if has_col {
        proto.push(Record { name: ColorRed, data_type: gen_attr_type(r) });
        proto.push(Record { name: ColorGreen, data_type: gen_attr_type(r) });
        proto.push(Record { name: ColorBlue, data_type: gen_attr_type(r) });
    }
    if !has_int && !has_col {
        proto.push(Record { name: Intensity, data_type: RecordDataType::U16 });
    }
    let type_class = |d: &RecordDataType| match d {
        RecordDataType::Single { min: None, .. } | RecordDataType::Single { max: None, .. } => "single-open",
        RecordDataType::Single { .. } => "single-bounded",
        RecordDataType::Double { min: None, .. } | RecordDataType::Double { max: None, .. } => "double-open",
        RecordDataType::Double { .. } => "double-bounded",
        RecordDataType::Integer { min, max } if min == max => "integer-degenerate",
        RecordDataType::Integer { .. } => "integer",
        RecordDataType::ScaledInteger { min, max, .. } if min == max => "scaled-degenerate",
        RecordDataType::ScaledInteger { .. } => "scaled",
    };
    // limit classes
    let limit_class = r.usize(10);
    let lim_name = ["absent", "complete-same", "complete-mixed", "partial", "equal", "min>max", "extreme", "nonfinite", "complete-other-type", "tiny-width"][limit_class];
    let find = |n: RecordName, p: &[Record]| p.iter().find(|x| x.name == n).map(|x| x.data_type.clone());
    let mk_pair = |r: &mut Rng, d: &RecordDataType, class: usize| -> (Option<RecordValue>, Option<RecordValue>) {
        let same = |r: &mut Rng, d: &RecordDataType| -> (RecordValue, RecordValue) {
            match d {
                RecordDataType::Single { .. } => {
                    if r.bool() {
                        // decimal fractions that no binary float holds exactly: as f32 and as f64 they differ
                        let (a, b) = *r.pick(&[(0.1f32, 0.7f32), (-0.3, 0.3), (1e-3, 33.3), (0.2, 0.6), (-1.1, -0.1), (0.7, 1.3)]);
                        (RecordValue::Single(a), RecordValue::Single(b))
                    } else {
                        let a = (r.range(-100, 100)) as f32 / 2.0;
                        (RecordValue::Single(a), RecordValue::Single(a + (1 + r.range(0, 400)) as f32 / 2.0))
                    }
                }
                RecordDataType::Double { .. } => {
                    let a = (r.range(-1000, 1000)) as f64 / 8.0;
                    (RecordValue::Double(a), RecordValue::Double(a + (1 + r.range(0, 4000)) as f64 / 8.0))
                }
                RecordDataType::Integer { min, max } => {
                    let a = gen_int_in(r, *min, *max);
                    let b = gen_int_in(r, a, *max);
                    (RecordValue::Integer(a), RecordValue::Integer(b))
                }
                RecordDataType::ScaledInteger { min, max, scale, .. } => {
                    let a = gen_int_in(r, *min, *max);
                    let b = gen_int_in(r, a, *max);
                    // keep real min <= real max also for negative scales
                    if *scale < 0.0 {
                        (RecordValue::ScaledInteger(b), RecordValue::ScaledInteger(a))
                    } else {
                        (RecordValue::ScaledInteger(a), RecordValue::ScaledInteger(b))
                    }
                }
            }
        };
        match class {
            1 | 3 => {
                let (a, b) = same(r, d);
                (Some(a), Some(b))
            }
            2 => (Some(RecordValue::Integer(r.range(-10, 10))), Some(RecordValue::Double(20.0 + r.f64_unit() * 100.0))),
            4 => {
                let (a, _) = same(r, d);
                (Some(a.clone()), Some(a))
            }
            5 => {
                let (a, b) = same(r, d);
                (Some(b), Some(a))
            }
            6 => match d {
                RecordDataType::Single { .. } => (Some(RecordValue::Single(f32::MIN)), Some(RecordValue::Single(f32::MAX))),
                RecordDataType::Double { .. } => (Some(RecordValue::Double(f64::MIN)), Some(RecordValue::Double(f64::MAX))),
                RecordDataType::Integer { .. } => (Some(RecordValue::Integer(i64::MIN)), Some(RecordValue::Integer(i64::MAX))),
                RecordDataType::ScaledInteger { .. } => (Some(RecordValue::ScaledInteger(i64::MIN)), Some(RecordValue::ScaledInteger(i64::MAX))),
            },
            7 => {
                let nf = *r.pick(&[f64::NAN, f64::INFINITY, f64::NEG_INFINITY]);
                if r.bool() {
                    (Some(RecordValue::Double(nf)), Some(RecordValue::Double(1.0)))
                } else {
                    (Some(RecordValue::Double(0.0)), Some(RecordValue::Double(nf)))
                }
            }
            9 => {
                // a range whose width is a few ulps / subnormal: the inverse of the width is not finite
                let (a, w): (f64, f64) = *r.pick(&[(0.0, 1e-320), (0.0, 5e-324), (-1e-310, 2e-310), (1.0, f64::EPSILON), (1e300, 1e284), (-5e-324, 1e-323)]);
                match d {
                    RecordDataType::Single { .. } => (Some(RecordValue::Single(0.0)), Some(RecordValue::Single(f32::from_bits(1 + r.usize(3) as u32)))),
                    _ => (Some(RecordValue::Double(a)), Some(RecordValue::Double(a + w))),
                }
            }
            8 => {
                // both limits of one type that differs from the attribute's type
                match d {
                    RecordDataType::ScaledInteger { .. } if r.bool() => (Some(RecordValue::Integer(r.range(-5, 3))), Some(RecordValue::Integer(r.range(4, 300)))),
                    RecordDataType::Integer { .. } | RecordDataType::ScaledInteger { .. } => (Some(RecordValue::Double(0.0)), Some(RecordValue::Double(255.0))),
                    _ => (Some(RecordValue::Integer(0)), Some(RecordValue::Integer(255))),
                }
            }
            _ => (None, None),
        }
    };
    let mut meta = PcMeta::default();
    let mut drop_lines: Vec<&'static str> = Vec::new();
    if limit_class != 0 {
        if let Some(d) = find(Intensity, &proto) {
            let (a, b) = mk_pair(r, &d, limit_class);
            meta.intensity_limits = Some(Some(IntensityLimits { intensity_min: a, intensity_max: b }));
            if limit_class == 3 {
                drop_lines.push(*r.pick(&["<intensityMinimum", "<intensityMaximum"]));
            }
        }
        if let (Some(dr), Some(dg), Some(db)) = (find(ColorRed, &proto), find(ColorGreen, &proto), find(ColorBlue, &proto)) {
            let (a, b) = mk_pair(r, &dr, limit_class);
            let (c, d) = mk_pair(r, &dg, limit_class);
            let (e, f) = mk_pair(r, &db, limit_class);
            meta.color_limits = Some(Some(ColorLimits { red_min: a, red_max: b, green_min: c, green_max: d, blue_min: e, blue_max: f }));
            if limit_class == 3 {
                drop_lines.push(*r.pick(&["<colorRedMinimum", "<colorGreenMaximum", "<colorBlueMinimum", "<colorBlueMaximum"]));
            }
        }
    }
    // points: a ladder per attribute (sorted by real value), boundaries included
    let n = 6 + r.usize(20);
    let mut pts: Vec<RawValues> = (0..n).map(|_| tame_point(r, &proto, false)).collect();
    for (ri, rec) in proto.iter().enumerate().skip(3) {
        let d = &rec.data_type;
        let mut vals: Vec<RecordValue> = (0..n).map(|_| gen_value(r, d, false)).collect();
        // finite only
        for v in vals.iter_mut() {
            let x = crate::readback::model_f64(v, d);
            if !x.is_finite() {
                *v = match d {
                    RecordDataType::Single { .. } => RecordValue::Single(1.25),
                    _ => RecordValue::Double(-7.5),
                };
            }
        }
        if limit_class == 9 {
            // put values at / between / around the tiny limits (float attributes without declared type range)
            let lims: Option<(f64, f64)> = match (&rec.name, &meta.intensity_limits, &meta.color_limits) {
                (Intensity, Some(Some(l)), _) => match (&l.intensity_min, &l.intensity_max) {
                    (Some(a), Some(b)) => Some((crate::readback::model_f64(a, d), crate::readback::model_f64(b, d))),
                    _ => None,
                },
                (ColorRed, _, Some(Some(l))) => match (&l.red_min, &l.red_max) {
                    (Some(a), Some(b)) => Some((crate::readback::model_f64(a, d), crate::readback::model_f64(b, d))),
                    _ => None,
                },
                _ => None,
            };
            if let Some((a, b)) = lims {
                let cands = [a, b, a + (b - a) * 0.5, a - (b - a), b + (b - a), a, b];
                for (k, v) in vals.iter_mut().enumerate() {
                    let x = cands[k % cands.len()];
                    match d {
                        RecordDataType::Single { min: None, max: None } => *v = RecordValue::Single(x as f32),
                        RecordDataType::Double { min: None, max: None } => *v = RecordValue::Double(x),
                        _ => {}
                    }
                }
            }
        }
        if limit_class == 1 {
            // values exactly AT the limits (same type as the attribute): 0 at the minimum and 1 at the maximum are exact
            let lims: Option<(RecordValue, RecordValue)> = match (&rec.name, &meta.intensity_limits, &meta.color_limits) {
                (Intensity, Some(Some(l)), _) => l.intensity_min.clone().zip(l.intensity_max.clone()),
                (ColorRed, _, Some(Some(l))) => l.red_min.clone().zip(l.red_max.clone()),
                (ColorGreen, _, Some(Some(l))) => l.green_min.clone().zip(l.green_max.clone()),
                (ColorBlue, _, Some(Some(l))) => l.blue_min.clone().zip(l.blue_max.clone()),
                _ => None,
            };
            if let Some((a, b)) = lims {
                let fits = |v: &RecordValue| crate::scene::point_fits(std::slice::from_ref(rec), std::slice::from_ref(v)).is_ok();
                let open_float = matches!(d, RecordDataType::Single { min: None, max: None } | RecordDataType::Double { min: None, max: None });
                let is_int = matches!(d, RecordDataType::Integer { .. } | RecordDataType::ScaledInteger { .. });
                if (open_float || is_int) && fits(&a) && fits(&b) && vals.len() >= 2 {
                    vals[0] = a;
                    vals[1] = b;
                    cover.hit("c13:values-exactly-at-limits");
                }
            }
        }
        vals.sort_by(|a, b| crate::readback::model_f64(a, d).partial_cmp(&crate::readback::model_f64(b, d)).unwrap_or(std::cmp::Ordering::Equal));
        for (p, v) in pts.iter_mut().zip(vals.into_iter()) {
            p[ri] = v;
        }
    }
    // execute by hand (needs the line dropping transformer)
    let dev = Dev::empty();
    let ok = guarded(|| -> Result<()> {
        let mut w = E57Writer::new(dev.clone(), "c13")?;
        let mut pw = w.add_pointcloud("pc", proto.clone())?;
        if let Some(l) = &meta.intensity_limits {
            pw.set_intensity_limits(l.clone());
        }
        if let Some(l) = &meta.color_limits {
            pw.set_color_limits(l.clone());
        }
        for p in &pts {
            pw.add_point(p.clone())?;
        }
        pw.finalize()?;
        w.finalize_customized_xml(|x| Ok(x.lines().filter(|l| !drop_lines.iter().any(|d| l.starts_with(d))).map(|l| format!("{}\n", l)).collect::<String>()))
    });
    match ok {
        Ok(Ok(())) => {}
        Ok(Err(e)) => {
            rep.stat("writer_rejected", 1);
            let _ = e;
            return;
        }
        Err(p) => {
            rep.violation("C10", &format!("panic/c13-writer/{}", panic_sig(&p)), idx, &p);
            return;
        }
    }
    let bytes = dev.bytes();
    let mut rd = match guarded(|| E57Reader::new(Cursor::new(bytes))) {
        Ok(Ok(rd)) => rd,
        Ok(Err(e)) => {
            rep.stat("not_opened", 1);
            cover.hit(&format!("not-opened:{}", err_class(&e)));
            return;
        }
        Err(p) => {
            rep.violation("C08", &format!("panic/E57Reader::new/{}", panic_sig(&p)), idx, &p);
            return;
        }
    };
    let pcs = rd.pointclouds();
    let pc = match pcs.first() {
        Some(pc) => pc.clone(),
        None => return,
    };
    let raw = match guarded(|| read_raw(&mut rd, &pc, 1 << 20)) {
        Ok(Ok(rr)) if rr.end == End::Done => rr,
        _ => {
            rep.stat("raw_failed", 1);
            return;
        }
    };
    rep.stat("clouds", 1);
    // channel descriptors as read back
    let chan = |name: RecordName| pc.prototype.iter().position(|x| x.name == name);
    // With complete limits of the attribute's own type the file holds exactly the limits handed to the writer:
    // those are "the point cloud's limits" then, whatever the reader's descriptor says about them.
    let intended = limit_class == 1 && drop_lines.is_empty();
    let il = if intended { meta.intensity_limits.clone().flatten() } else { pc.intensity_limits.clone() };
    let cl = if intended { meta.color_limits.clone().flatten() } else { pc.color_limits.clone() };
    if intended {
        cover.hit("c13:judged-against-written-limits");
    }
    // (the reader keeps working with its own descriptor `pc`; only the expectation uses `il` / `cl`)
    let il = if il.is_some() { il } else { pc.intensity_limits.clone() };
    let cl = if cl.is_some() { cl } else { pc.color_limits.clone() };
    let chans: [(Option<usize>, Option<RecordValue>, Option<RecordValue>); 4] = [
        (chan(Intensity), il.as_ref().and_then(|l| l.intensity_min.clone()), il.as_ref().and_then(|l| l.intensity_max.clone())),
        (chan(ColorRed), cl.as_ref().and_then(|l| l.red_min.clone()), cl.as_ref().and_then(|l| l.red_max.clone())),
        (chan(ColorGreen), cl.as_ref().and_then(|l| l.green_min.clone()), cl.as_ref().and_then(|l| l.green_max.clone())),
        (chan(ColorBlue), cl.as_ref().and_then(|l| l.blue_min.clone()), cl.as_ref().and_then(|l| l.blue_max.clone())),
    ];
    for (ni, nc) in [(true, true), (false, false), (true, false), (false, true)] {
        let o = Opts((Opts::DEFAULT.0 & !0b11100) | if ni { 8 } else { 0 } | if nc { 16 } else { 0 }); // i2c off so that colour is the stored colour
        let sr = match guarded(|| read_simple(&mut rd, &pc, o, 1 << 20)) {
            Ok(Ok(sr)) => sr,
            Ok(Err(e)) => {
                rep.stat("simple_rejected", 1);
                cover.hit(&format!("simple-rejected:{}:{}", lim_name, class_of(&e).chars().take(40).collect::<String>()));
                continue;
            }
            Err(p) => {
                rep.violation("C13", &format!("panic/{}", panic_sig(&p)), idx, &format!("limits={} :: {}", lim_name, p));
                rep.violation("C08", &format!("panic/simple-iterator/{}", panic_sig(&p)), idx, &p);
                continue;
            }
        };
        if let End::Err(e) = &sr.end {
            rep.violation("C05", &format!("spurious-error/{}", class_of(e)), idx, e);
            continue;
        }
        for (ci, (pos, lmin, lmax)) in chans.iter().enumerate() {
            let pos = match pos {
                Some(p) => *p,
                None => continue,
            };
            let norm_on = if ci == 0 { ni } else { nc };
            let d = &pc.prototype[pos].data_type;
            let (cands, lclass) = candidate_ranges(d, lmin, lmax);
            cover.hit(&format!("cell:{}:{}:{}", type_class(d), lclass, if norm_on { "on" } else { "off" }));
            let mut prev: Option<(f64, f32)> = None;
            for (k, (rawp, sp)) in raw.items.iter().zip(sr.items.iter()).enumerate() {
                let real = crate::readback::model_f64(&rawp[pos], d);
                let got = match ci {
                    0 => sp.intensity,
                    1 => sp.color.as_ref().map(|c| c.red),
                    2 => sp.color.as_ref().map(|c| c.green),
                    _ => sp.color.as_ref().map(|c| c.blue),
                };
                let got = match got {
                    Some(g) => g,
                    None => {
                        rep.violation("C13", "missing-value", idx, &format!("{} point {} not delivered", CHANNELS[ci], k));
                        break;
                    }
                };
                rep.stat("values_checked", 1);
                if !norm_on {
                    let want = real as f32;
                    if want.to_bits() != got.to_bits() && !(want.is_nan() && got.is_nan()) {
                        rep.violation("C13", &format!("unnormalised/{}", type_class(d)), idx, &format!("{} point {}: stored real {} delivered {} expected {}", CHANNELS[ci], k, real, got, want));
                        break;
                    }
                    continue;
                }
                if !real.is_finite() {
                    continue;
                }
                let detail = |what: &str| format!("{} ({}; limits {} -> {}; read-back limits [{}..{}]) point {}: stored real {:e} delivered {:e} :: {}", CHANNELS[ci], dt_str(d), lim_name, lclass, oval_str(lmin), oval_str(lmax), k, real, got, what);
                if got.is_nan() || got.is_infinite() {
                    rep.violation("C13", &format!("not-a-number/{}/{}", type_class(d), lclass), idx, &detail("NaN or infinite"));
                    break;
                }
                if !(0.0..=1.0).contains(&got) {
                    rep.violation("C13", &format!("outside-unit-interval/{}/{}", type_class(d), lclass), idx, &detail("outside [0,1]"));
                    break;
                }
                if let Some((pr, pg)) = prev {
                    if real > pr && got < pg {
                        rep.violation("C13", &format!("not-monotone/{}/{}", type_class(d), lclass), idx, &detail(&format!("previous stored {:e} delivered {:e}", pr, pg)));
                        break;
                    }
                }
                prev = Some((real, got));
                // value: must match one of the admissible ranges
                // If one admissible range is not a range the statement defines (non-finite or reversed),
                // the implementation may have picked exactly that one: only the invariants above are required.
                let all_defined = cands.iter().all(|(a, b)| norm_expected(real, *a, *b).is_some());
                let exps: Vec<f64> = cands.iter().filter_map(|(a, b)| norm_expected(real, *a, *b)).collect();
                if all_defined && !exps.is_empty() {
                    let ok = exps.iter().any(|e| (*e as f32 - got).abs() <= 2.0 * f32::EPSILON * e.abs() as f32 + 2e-7);
                    if !ok {
                        rep.violation("C13", &format!("value/{}/{}", type_class(d), lclass), idx, &detail(&format!("expected one of {:?}", exps)));
                        break;
                    }
                    if cands.len() == 1 && cands[0].0 < cands[0].1 {
                        if real <= cands[0].0 && got != 0.0 {
                            rep.violation("C13", &format!("not-zero-at-min/{}/{}", type_class(d), lclass), idx, &detail("value at or below the minimum must give 0"));
                            break;
                        }
                        if real >= cands[0].1 && got != 1.0 {
                            rep.violation("C13", &format!("not-one-at-max/{}/{}", type_class(d), lclass), idx, &detail("value at or above the maximum must give 1"));
                            break;
                        }
                        cover.hit(if real <= cands[0].0 { "boundary:at-min" } else if real >= cands[0].1 { "boundary:at-max" } else { "boundary:inside" });
                    }
                }
            }
        }
        rep.stat("option_settings_run", 1);
    }
    if rep.samples < rep.max_samples {
        rep.sample(J::obj().set("case", J::i(idx as i128)).set("prototype", J::s(proto_str(&proto))).set("limits", J::s(lim_name)).set("points", J::u(pts.len())).set("ladder_first", J::s(raw_str(&pts[0]))));
    }
}

pub fn run(a: &Args, rep: &mut Reporter) {
    let mode = a.get("mode").unwrap_or("c05").to_string();
    let ext_files: Vec<String> = match a.get("filelist") {
        Some(p) => std::fs::read_to_string(p).map(|s| s.lines().map(|l| l.to_string()).collect()).unwrap_or_default(),
        None => Vec::new(),
    };
    let all_opts = !a.flag("sample-opts");
    let (done, reason) = crate::run_cases(a, rep, |idx, cs, rep| {
        let mut r = Rng::new(cs);
        let mut cover = std::mem::take(&mut rep.cover);
        if mode == "c13" {
            c13_case(&mut r, idx, rep, &mut cover);
        } else if !ext_files.is_empty() {
            // externally produced files (independent encoder): one file per case index
            if let Some(path) = ext_files.get(idx as usize) {
                if let Ok(bytes) = std::fs::read(path) {
                    let fc = FileCase { bytes, label: path.rsplit('/').next().unwrap_or(path).to_string() };
                    c05_check_file(&fc, idx, rep, &mut cover, all_opts, &mut r);
                }
            }
        } else if let Some(fc) = c05_make_file(&mut r, idx, &mut cover) {
            if rep.samples < rep.max_samples {
                rep.sample(J::obj().set("case", J::i(idx as i128)).set("file", J::s(&fc.label)).set("bytes", J::u(fc.bytes.len())).set("option_vectors", J::i(64)));
            }
            c05_check_file(&fc, idx, rep, &mut cover, all_opts, &mut r);
        } else {
            rep.stat("trivial_cases", 1);
        }
        rep.cover = cover;
    });
    rep.finish(done, reason);
}
