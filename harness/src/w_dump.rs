//! Workload "dump": observation logs of externally produced files for the Python oracles
//! (C03, C12, C18, C20). One JSON object per file is appended to <out>.obs.jsonl.

use crate::json::J;
use crate::obs::*;
use crate::scene::guarded;
use crate::{Args, Reporter};
use std::io::Write;

pub fn run(a: &Args, rep: &mut Reporter) {
    let files: Vec<String> = match a.get("filelist") {
        Some(p) => std::fs::read_to_string(p).map(|s| s.lines().map(|l| l.to_string()).filter(|l| !l.is_empty()).collect()).unwrap_or_default(),
        None => a.pos.clone(),
    };
    let opts: Vec<Opts> = match a.get("simple-opts") {
        Some("all") => (0..64).map(Opts).collect(),
        Some("default") => vec![Opts::DEFAULT],
        _ => Vec::new(),
    };
    let obs_path = format!("{}.obs.jsonl", a.out);
    let mut obs = std::io::BufWriter::new(std::fs::File::create(&obs_path).expect("cannot create obs file"));
    let a2 = Args { workload: a.workload.clone(), seed: a.seed, shard: a.shard, shards: a.shards, cases: files.len() as u64, secs: a.secs, out: a.out.clone(), only: a.only, tier: a.tier.clone(), kv: a.kv.clone(), pos: a.pos.clone() };
    let (done, reason) = crate::run_cases(&a2, rep, |idx, _cs, rep| {
        let path = &files[idx as usize];
        let bytes = match std::fs::read(path) {
            Ok(b) => b,
            Err(_) => return,
        };
        rep.stat("files_dumped", 1);
        let r = guarded(|| dump_file(bytes, &opts, 1 << 22, true));
        let j = match r {
            Ok(j) => j,
            Err(p) => J::obj().set("panic", J::s(&p)),
        };
        let line = J::obj().set("file", J::s(path)).set("obs", j);
        let _ = writeln!(obs, "{}", line.dump());
    });
    let _ = obs.flush();
    rep.finish(done, reason);
}
