//! M-PROC: counting global allocator. Tracks live and peak bytes; a hard cap makes
//! `alloc` return null, which aborts the process (the driver attributes the abort to the
//! journaled case).

use std::alloc::{GlobalAlloc, Layout, System};
use std::sync::atomic::{AtomicUsize, Ordering};

pub struct Counting;

static LIVE: AtomicUsize = AtomicUsize::new(0);
static PEAK: AtomicUsize = AtomicUsize::new(0);
static CAP: AtomicUsize = AtomicUsize::new(usize::MAX);
static CAP_HITS: AtomicUsize = AtomicUsize::new(0);
static BIGGEST: AtomicUsize = AtomicUsize::new(0);

unsafe impl GlobalAlloc for Counting {
    unsafe fn alloc(&self, l: Layout) -> *mut u8 {
        let sz = l.size();
        let live = LIVE.fetch_add(sz, Ordering::Relaxed) + sz;
        if live > CAP.load(Ordering::Relaxed) {
            LIVE.fetch_sub(sz, Ordering::Relaxed);
            CAP_HITS.fetch_add(1, Ordering::Relaxed);
            cap_hit_report(sz, live);
            return std::ptr::null_mut();
        }
        PEAK.fetch_max(live, Ordering::Relaxed);
        BIGGEST.fetch_max(sz, Ordering::Relaxed);
        let p = System.alloc(l);
        if p.is_null() {
            LIVE.fetch_sub(sz, Ordering::Relaxed);
        }
        p
    }
    unsafe fn dealloc(&self, p: *mut u8, l: Layout) {
        LIVE.fetch_sub(l.size(), Ordering::Relaxed);
        System.dealloc(p, l)
    }
    unsafe fn alloc_zeroed(&self, l: Layout) -> *mut u8 {
        let sz = l.size();
        let live = LIVE.fetch_add(sz, Ordering::Relaxed) + sz;
        if live > CAP.load(Ordering::Relaxed) {
            LIVE.fetch_sub(sz, Ordering::Relaxed);
            CAP_HITS.fetch_add(1, Ordering::Relaxed);
            cap_hit_report(sz, live);
            return std::ptr::null_mut();
        }
        PEAK.fetch_max(live, Ordering::Relaxed);
        BIGGEST.fetch_max(sz, Ordering::Relaxed);
        let p = System.alloc_zeroed(l);
        if p.is_null() {
            LIVE.fetch_sub(sz, Ordering::Relaxed);
        }
        p
    }
    unsafe fn realloc(&self, p: *mut u8, l: Layout, new: usize) -> *mut u8 {
        let old = l.size();
        if new > old {
            let add = new - old;
            let live = LIVE.fetch_add(add, Ordering::Relaxed) + add;
            if live > CAP.load(Ordering::Relaxed) {
                LIVE.fetch_sub(add, Ordering::Relaxed);
                CAP_HITS.fetch_add(1, Ordering::Relaxed);
                cap_hit_report(new, live);
                return std::ptr::null_mut();
            }
            PEAK.fetch_max(live, Ordering::Relaxed);
            BIGGEST.fetch_max(new, Ordering::Relaxed);
        } else {
            LIVE.fetch_sub(old - new, Ordering::Relaxed);
        }
        let q = System.realloc(p, l, new);
        if q.is_null() {
            // undo accounting
            if new > old {
                LIVE.fetch_sub(new - old, Ordering::Relaxed);
            } else {
                LIVE.fetch_add(old - new, Ordering::Relaxed);
            }
        }
        q
    }
}

/// Written with a raw write(2) so that no allocation happens here.
fn cap_hit_report(sz: usize, live: usize) {
    let mut buf = [0u8; 96];
    let msg = b"E57MON-ALLOC-CAP-HIT request=";
    let mut n = 0;
    for b in msg {
        buf[n] = *b;
        n += 1;
    }
    n = put_num(&mut buf, n, sz);
    for b in b" live=" {
        buf[n] = *b;
        n += 1;
    }
    n = put_num(&mut buf, n, live);
    buf[n] = b'\n';
    n += 1;
    use std::io::Write;
    let _ = std::io::stderr().write_all(&buf[..n]);
}

fn put_num(buf: &mut [u8], mut n: usize, mut v: usize) -> usize {
    let mut tmp = [0u8; 24];
    let mut k = 0;
    if v == 0 {
        tmp[0] = b'0';
        k = 1;
    }
    while v > 0 {
        tmp[k] = b'0' + (v % 10) as u8;
        v /= 10;
        k += 1;
    }
    while k > 0 {
        k -= 1;
        buf[n] = tmp[k];
        n += 1;
    }
    n
}

pub fn live() -> usize {
    LIVE.load(Ordering::Relaxed)
}
pub fn peak() -> usize {
    PEAK.load(Ordering::Relaxed)
}
/// reset peak to the current live value; returns the live value
pub fn reset_peak() -> usize {
    let l = LIVE.load(Ordering::Relaxed);
    PEAK.store(l, Ordering::Relaxed);
    BIGGEST.store(0, Ordering::Relaxed);
    l
}
pub fn biggest() -> usize {
    BIGGEST.load(Ordering::Relaxed)
}
pub fn set_cap(bytes: usize) {
    CAP.store(bytes, Ordering::Relaxed);
}
pub fn cap_hits() -> usize {
    CAP_HITS.load(Ordering::Relaxed)
}
