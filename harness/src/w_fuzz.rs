//! Workload "fuzz" (C08 + C09): structure-aware mutants of valid files are fed to every reading
//! entry point under the process monitors: panic hook + catch_unwind (C08), counting allocator,
//! device-traffic counters and yield counters per public call (C09).

use crate::alloc;
use crate::crc::FastCrc;
use crate::dev::Dev;
use crate::json::J;
use crate::mutate::*;
use crate::obs::*;
use crate::rng::Rng;
use crate::scene::{guarded, panic_sig};
use crate::{Args, Reporter};
use e57::*;

const YIELD_CAP: u64 = 20_000;
const YIELD_CAP_SIMPLE: u64 = 3_000;

pub fn load_seeds(seed: u64, n_generated: u64) -> Vec<(String, Vec<u8>)> {
    let mut v = Vec::new();
    let names = [
        "tinyCartesianFloatRgb.e57",
        "tiny_pc_and_images.e57",
        "tiny_pc_with_extension.e57",
        "tiny_spherical.e57",
        "empty.e57",
        "empty_pc.e57",
        "original_guids.e57",
        "integer_intensity.e57",
        "scaled_integer_intensity.e57",
        "float_intensity_without_min_max.e57",
        "no_ext_namespace.e57",
        "las2e57_no_images_tag.e57",
        "read_error.e57",
        "corrupt_crc.e57",
    ];
    for n in names {
        if let Ok(b) = std::fs::read(format!("/repo/testdata/{}", n)) {
            if b.len() <= 600 * 1024 {
                v.push((n.to_string(), b));
            }
        }
    }
    let mut scratch = crate::Cover::default();
    for i in 0..n_generated {
        if let Some((b, _)) = crate::w_crc::make_file(seed ^ 0xF022, i, &mut scratch) {
            v.push((format!("generated:{}", i), b));
        }
    }
    v
}

pub struct Budget {
    pub len: usize,
}
impl Budget {
    fn max_peak(&self) -> usize {
        256 * self.len + 64 * 1024 * 1024
    }
    fn max_read_bytes(&self) -> u64 {
        64 * self.len as u64 + 16 * 1024 * 1024
    }
    fn max_reads(&self) -> u64 {
        self.len as u64 / 4 + 4096
    }
}

struct Mon<'a> {
    rep: &'a mut Reporter,
    idx: u64,
    budget: Budget,
    desc: String,
    max_ratio_peak: f64,
    max_reads: u64,
}

impl<'a> Mon<'a> {
    /// run one public call under all monitors; None = panicked (already reported)
    fn call<R>(&mut self, entry: &str, dev: Option<&Dev>, f: impl FnOnce() -> R) -> Option<R> {
        let base = alloc::reset_peak();
        if let Some(d) = dev {
            d.reset_counters();
        }
        let r = guarded(f);
        let peak = alloc::peak().saturating_sub(base);
        self.rep.stat("calls_monitored", 1);
        let ratio = peak as f64 / self.budget.len.max(1) as f64;
        if ratio > self.max_ratio_peak {
            self.max_ratio_peak = ratio;
        }
        self.rep.stat_max("max_peak_bytes_per_call", peak as u64);
        if peak > self.budget.max_peak() {
            self.rep.violation("C09", &format!("budget/peak-memory/{}", entry), self.idx, &format!("{}: one call to {} had a peak of {} live bytes for a {} byte input (budget {})", self.desc, entry, peak, self.budget.len, self.budget.max_peak()));
        }
        if let Some(d) = dev {
            let c = d.counters();
            self.rep.stat_max("max_device_reads_per_call", c.reads);
            self.rep.stat_max("max_device_read_bytes_per_call", c.read_bytes);
            if c.reads > self.max_reads {
                self.max_reads = c.reads;
            }
            if c.read_bytes > self.budget.max_read_bytes() {
                self.rep.violation("C09", &format!("budget/device-bytes/{}", entry), self.idx, &format!("{}: one call to {} read {} bytes from a {} byte input", self.desc, entry, c.read_bytes, self.budget.len));
            }
            if c.reads > self.budget.max_reads() {
                self.rep.violation("C09", &format!("budget/device-reads/{}", entry), self.idx, &format!("{}: one call to {} issued {} device reads for a {} byte input", self.desc, entry, c.reads, self.budget.len));
            }
        }
        match r {
            Ok(v) => Some(v),
            Err(p) => {
                self.rep.violation("C08", &format!("panic/{}/{}", entry, panic_sig(&p)), self.idx, &format!("{}: {} panicked: {}", self.desc, entry, p));
                None
            }
        }
    }
}

/// The full reading entry-point suite on one input.
pub fn exercise(img: &[u8], desc: &str, idx: u64, rep: &mut Reporter, cover: &mut crate::Cover, r: &mut Rng, all_opts: bool) {
    let mut m = Mon { rep, idx, budget: Budget { len: img.len() }, desc: desc.to_string(), max_ratio_peak: 0.0, max_reads: 0 };
    // --- standalone functions
    {
        let dev = Dev::new(img.to_vec());
        let d2 = dev.clone();
        if let Some(res) = m.call("validate_crc", Some(&dev), move || E57Reader::validate_crc(d2)) {
            cover.hit(if res.is_ok() { "validate_crc:ok" } else { "validate_crc:err" });
        }
    }
    {
        let dev = Dev::new(img.to_vec());
        let d2 = dev.clone();
        if let Some(res) = m.call("raw_xml", Some(&dev), move || E57Reader::raw_xml(d2)) {
            cover.hit(if res.is_ok() { "raw_xml:ok" } else { "raw_xml:err" });
        }
    }
    // --- open
    let dev = Dev::new(img.to_vec());
    let d2 = dev.clone();
    let rd = match m.call("E57Reader::new", Some(&dev), move || E57Reader::new(d2)) {
        Some(Ok(rd)) => rd,
        Some(Err(e)) => {
            cover.hit("new:err");
            cover.hit_num("error_class", crate::rng::hash_str(&err_class(&e)) >> 12);
            return;
        }
        None => return,
    };
    let mut rd = rd;
    cover.hit("new:ok");
    m.rep.stat("inputs_opened", 1);
    // getters
    let got = m.call("getters", Some(&dev), || {
        let _ = (rd.header(), rd.xml().len(), rd.format_name().len(), rd.guid().len(), rd.library_version().map(|s| s.len()), rd.creation(), rd.coordinate_metadata().map(|s| s.len()), rd.extensions().len());
        (rd.pointclouds(), rd.images())
    });
    let (pcs, imgs) = match got {
        Some(x) => x,
        None => return,
    };
    for (pi, pc) in pcs.iter().take(6).enumerate() {
        // helper getters on descriptors
        let _ = m.call("pointcloud-helpers", None, || (pc.has_cartesian(), pc.has_spherical(), pc.has_color(), pc.has_intensity(), pc.has_row_column(), pc.has_return(), pc.has_timestamp(), pc.get_cartesian_bounds()));
        // raw iterator
        let it = m.call("pointcloud_raw", Some(&dev), || rd.pointcloud_raw(pc));
        match it {
            Some(Ok(mut it)) => {
                let mut yielded: u64 = 0;
                loop {
                    // each step is one monitored call
                    let base = alloc::reset_peak();
                    dev.reset_counters();
                    if let Err(p) = guarded(|| it.size_hint()) {
                        m.rep.violation("C08", &format!("panic/raw-size_hint/{}", panic_sig(&p)), idx, &format!("{}: size_hint of the raw iterator of pc{} panicked after {} items: {}", desc, pi, yielded, p));
                        break;
                    }
                    let step = guarded(|| it.next());
                    let peak = alloc::peak().saturating_sub(base);
                    let c = dev.counters();
                    m.rep.stat("iterator_steps_monitored", 1);
                    m.rep.stat_max("max_peak_bytes_per_call", peak as u64);
                    m.rep.stat_max("max_device_read_bytes_per_call", c.read_bytes);
                    m.rep.stat_max("max_device_reads_per_call", c.reads);
                    if peak > m.budget.max_peak() {
                        m.rep.violation("C09", "budget/peak-memory/raw-next", idx, &format!("{}: one raw next() had a peak of {} bytes for a {} byte input", desc, peak, img.len()));
                        break;
                    }
                    if c.read_bytes > m.budget.max_read_bytes() || c.reads > m.budget.max_reads() {
                        m.rep.violation("C09", "budget/device/raw-next", idx, &format!("{}: one raw next() read {} bytes in {} reads for a {} byte input", desc, c.read_bytes, c.reads, img.len()));
                        break;
                    }
                    match step {
                        Err(p) => {
                            m.rep.violation("C08", &format!("panic/raw-next/{}", panic_sig(&p)), idx, &format!("{}: raw iterator of pc{} panicked after {} items: {}", desc, pi, yielded, p));
                            break;
                        }
                        Ok(None) => {
                            cover.hit("raw:end-none");
                            break;
                        }
                        Ok(Some(Err(e))) => {
                            cover.hit("raw:end-err");
                            cover.hit_num("error_class", crate::rng::hash_str(&err_class(&e)) >> 12);
                            break;
                        }
                        Ok(Some(Ok(vals))) => {
                            yielded += 1;
                            if yielded <= 4 {
                                // the public conversion helpers on values that came out of untrusted bytes
                                let conv = guarded(|| {
                                    let mut n = 0usize;
                                    for (v, rec) in vals.iter().zip(pc.prototype.iter()) {
                                        let _ = (v.to_f64(&rec.data_type).is_ok(), v.to_i64(&rec.data_type).is_ok(), v.to_u8(&rec.data_type).is_ok());
                                        n += format!("{}", v).len();
                                    }
                                    n
                                });
                                m.rep.stat("value_conversions_monitored", 1);
                                if let Err(p) = conv {
                                    m.rep.violation("C08", &format!("panic/value-conversion/{}", panic_sig(&p)), idx, &format!("{}: converting / formatting a value of pc{} panicked: {}", desc, pi, p));
                                    break;
                                }
                            }
                            if yielded > pc.records {
                                m.rep.violation("C09", "yield-more-than-recordCount/raw", idx, &format!("{}: raw iterator yielded {} items, recordCount is {}", desc, yielded, pc.records));
                                break;
                            }
                            // a prototype of tens of thousands of records makes every step cost in proportion: a few
                            // steps per iterator are enough there (the per-call budgets are checked on each)
                            if yielded >= YIELD_CAP || (pc.prototype.len() > 4096 && yielded >= 6) {
                                cover.hit("raw:end-cap");
                                break;
                            }
                        }
                    }
                }
                if yielded > 0 {
                    m.rep.stat("inputs_reached_packet_decoding", 1);
                }
                m.rep.stat("raw_items_yielded", yielded);
            }
            Some(Err(e)) => {
                cover.hit("raw:open-err");
                cover.hit_num("error_class", crate::rng::hash_str(&err_class(&e)) >> 12);
            }
            None => {}
        }
        // simple iterator under option vectors
        let opts: Vec<u8> = if pc.prototype.len() > 4096 {
            vec![Opts::DEFAULT.0, r.usize(64) as u8]
        } else if all_opts {
            (0..64).collect()
        } else {
            vec![Opts::DEFAULT.0, r.usize(64) as u8, r.usize(64) as u8, r.usize(64) as u8]
        };
        for ob in opts {
            let o = Opts(ob);
            let it = m.call("pointcloud_simple", Some(&dev), || rd.pointcloud_simple(pc));
            match it {
                Some(Ok(mut it)) => {
                    it.spherical_to_cartesian(o.s2c());
                    it.cartesian_to_spherical(o.c2s());
                    it.intensity_to_color(o.i2c());
                    it.normalize_intensity(o.ni());
                    it.normalize_color(o.nc());
                    it.apply_pose(o.pose());
                    let mut yielded: u64 = 0;
                    loop {
                        let base = alloc::reset_peak();
                        dev.reset_counters();
                        if let Err(p) = guarded(|| it.size_hint()) {
                            m.rep.violation("C08", &format!("panic/simple-size_hint/{}", panic_sig(&p)), idx, &format!("{}: size_hint of the simple iterator of pc{} panicked after {} items: {}", desc, pi, yielded, p));
                            break;
                        }
                        let step = guarded(|| it.next());
                        let peak = alloc::peak().saturating_sub(base);
                        let c = dev.counters();
                        m.rep.stat("iterator_steps_monitored", 1);
                        m.rep.stat_max("max_peak_bytes_per_call", peak as u64);
                        if peak > m.budget.max_peak() {
                            m.rep.violation("C09", "budget/peak-memory/simple-next", idx, &format!("{}: one simple next() had a peak of {} bytes for a {} byte input", desc, peak, img.len()));
                            break;
                        }
                        if c.read_bytes > m.budget.max_read_bytes() || c.reads > m.budget.max_reads() {
                            m.rep.violation("C09", "budget/device/simple-next", idx, &format!("{}: one simple next() read {} bytes in {} reads", desc, c.read_bytes, c.reads));
                            break;
                        }
                        match step {
                            Err(p) => {
                                m.rep.violation("C08", &format!("panic/simple-next/{}", panic_sig(&p)), idx, &format!("{}: simple iterator of pc{} (opts {:06b}) panicked after {} items: {}", desc, pi, ob, yielded, p));
                                break;
                            }
                            Ok(None) => break,
                            Ok(Some(Err(e))) => {
                                cover.hit_num("error_class", crate::rng::hash_str(&err_class(&e)) >> 12);
                                break;
                            }
                            Ok(Some(Ok(_))) => {
                                yielded += 1;
                                if yielded > pc.records {
                                    m.rep.violation("C09", "yield-more-than-recordCount/simple", idx, &format!("{}: simple iterator yielded {} items, recordCount is {}", desc, yielded, pc.records));
                                    break;
                                }
                                if yielded >= YIELD_CAP_SIMPLE || (pc.prototype.len() > 4096 && yielded >= 6) {
                                    break;
                                }
                            }
                        }
                    }
                    if yielded > 0 {
                        m.rep.stat("inputs_reached_simple_points", 1);
                    }
                }
                Some(Err(e)) => {
                    cover.hit_num("error_class", crate::rng::hash_str(&err_class(&e)) >> 12);
                }
                None => {}
            }
        }
    }
    // blobs: from descriptors + hostile descriptors
    let mut blobs: Vec<Blob> = Vec::new();
    for im in imgs.iter().take(6) {
        for (_, b) in img_blobs(im) {
            blobs.push(b);
        }
    }
    let known: Vec<Blob> = blobs.clone();
    for b in known.iter().take(3) {
        blobs.push(Blob::new(b.offset, b.length.wrapping_add(*r.pick(&[1u64, 16, 17, 1 << 40, u64::MAX - b.length]))));
        blobs.push(Blob::new(b.offset.wrapping_add(*r.pick(&[1u64, 4, 16, 1020, 1024])), b.length));
    }
    for _ in 0..3 {
        blobs.push(Blob::new(*r.pick(HOSTILE_U64) % (img.len() as u64 + 2048), *r.pick(HOSTILE_U64)));
    }
    for pc in pcs.iter().take(2) {
        blobs.push(Blob::new(pc.file_offset, 64)); // a CV section read as blob
    }
    for b in blobs.iter().take(24) {
        let mut sink = CountSink { n: 0 };
        let res = m.call("blob", Some(&dev), || rd.blob(b, &mut sink));
        match res {
            Some(Ok(n)) => {
                cover.hit("blob:ok");
                if n != sink.n {
                    m.rep.violation("C06", "blob/count-mismatch", idx, &format!("{}: blob() returned {} but wrote {} bytes", desc, n, sink.n));
                }
                if n > b.length {
                    m.rep.violation("C06", "blob/more-than-length", idx, &format!("{}: blob() returned {} for a descriptor of length {}", desc, n, b.length));
                }
                if n < b.length {
                    m.rep.violation("C06", "blob/short-ok", idx, &format!("{}: blob({}+{}) returned Ok({}) - fewer bytes than the descriptor's length", desc, b.offset, b.length, n));
                }
                if sink.n > 64 * img.len() as u64 + (16 << 20) {
                    m.rep.violation("C09", "budget/blob-output", idx, &format!("{}: blob() produced {} bytes from a {} byte input", desc, sink.n, img.len()));
                }
            }
            Some(Err(_)) => cover.hit("blob:err"),
            None => {}
        }
    }
    let ratio = m.max_ratio_peak;
    m.rep.stat_max("max_peak_over_input_x1000", (ratio * 1000.0) as u64);
}

struct CountSink {
    n: u64,
}
impl std::io::Write for CountSink {
    fn write(&mut self, b: &[u8]) -> std::io::Result<usize> {
        self.n += b.len() as u64;
        Ok(b.len())
    }
    fn flush(&mut self) -> std::io::Result<()> {
        Ok(())
    }
}

pub fn run(a: &Args, rep: &mut Reporter) {
    let fc = FastCrc::new();
    alloc::set_cap(a.get_u64("capmb", 1536) as usize * 1024 * 1024);
    let seeds = load_seeds(a.seed, a.get_u64("genseeds", 12));
    if seeds.is_empty() {
        eprintln!("no seed files found");
        std::process::exit(2);
    }
    let walks: Vec<Option<Walk>> = seeds.iter().map(|(_, b)| Walk::new(b)).collect();
    let nseeds = seeds.len() as u64;
    let nops = OPS.len() as u64;
    let (done, reason) = crate::run_cases(a, rep, |idx, cs, rep| {
        let mut r = Rng::new(cs);
        let mut cover = std::mem::take(&mut rep.cover);
        let si = (idx % nseeds) as usize;
        let opn = ((idx / nseeds) % nops) as usize;
        let rep_no = idx / (nseeds * nops);
        let (sname, sbytes) = &seeds[si];
        let w = match &walks[si] {
            Some(w) => w,
            None => {
                rep.cover = cover;
                return;
            }
        };
        // the mutators work on hostile intermediate images when stacked: a failure inside them is a
        // harness matter (not applicable), never a verdict
        let first = guarded(|| mutate(w, sbytes, opn, &mut r, &fc)).unwrap_or_else(|p| {
            eprintln!("note: mutator failed on case {}: {}", idx, p);
            None
        });
        let mut m = match first {
            Some(m) => m,
            None => {
                rep.stat("operator_not_applicable", 1);
                rep.cover = cover;
                return;
            }
        };
        // stacked second mutation
        let mut desc = format!("{} <- {} ({})", sname, m.op, m.note);
        if r.chance(1, 4) {
            if let Some(w2) = guarded(|| Walk::new(&m.img)).unwrap_or(None) {
                let op2 = r.usize(OPS.len());
                let second = guarded(|| mutate(&w2, &m.img.clone(), op2, &mut r, &fc)).unwrap_or(None);
                if let Some(m2) = second {
                    desc = format!("{} <- {} ({})", desc, m2.op, m2.note);
                    m = Mutant { img: m2.img, op: m.op, note: m.note };
                    rep.stat("stacked_mutants", 1);
                }
            }
        }
        rep.journal(idx, &desc.chars().take(150).collect::<String>());
        rep.stat("inputs", 1);
        cover.hit(&format!("operator:{}", m.op));
        cover.hit_num("input_identity", crate::json::fnv64(&m.img) >> 8);
        if rep.verbose {
            eprintln!("CASE {} :: {} :: {} bytes", idx, desc, m.img.len());
            if let Some(p) = a.get("save") {
                let _ = std::fs::write(p, &m.img);
            }
        }
        let all_opts = rep_no == 0 && si < 2;
        exercise(&m.img, &desc, idx, rep, &mut cover, &mut r, all_opts);
        if rep.samples < rep.max_samples && idx % 41 == 7 {
            rep.sample(J::obj().set("case", J::i(idx as i128)).set("input", J::s(&desc)).set("bytes", J::u(m.img.len())));
        }
        rep.cover = cover;
    });
    rep.finish(done, reason);
}
