//! e57mon: runtime-monitoring harness for cry-inc/e57. One binary, one sub-command per
//! workload. Each invocation is one *shard*; it writes JSONL events to --out and journals
//! the running case id to <out>.journal so that an abort can be attributed to its case.

mod alloc;
mod crc;
mod dev;
mod json;
mod models;
mod mutate;
mod obs;
mod readback;
mod rng;
mod scene;
mod w_copy;
mod w_crash;
mod w_crc;
mod w_dump;
mod w_fault;
mod w_fuzz;
mod w_history;
mod w_pages;
mod w_roundtrip;
mod w_simple;

use json::J;
use std::cell::RefCell;
use std::collections::{BTreeMap, BTreeSet};
use std::io::Write;
use std::time::Instant;

#[global_allocator]
static GLOBAL: alloc::Counting = alloc::Counting;

/// per-case watchdog: (case index, start in ms since process start); u64::MAX = no case running
pub static WD_CASE: std::sync::atomic::AtomicU64 = std::sync::atomic::AtomicU64::new(u64::MAX);
pub static WD_START_MS: std::sync::atomic::AtomicU64 = std::sync::atomic::AtomicU64::new(0);

fn start_watchdog(limit_s: u64) {
    let t0 = Instant::now();
    std::thread::spawn(move || loop {
        std::thread::sleep(std::time::Duration::from_millis(500));
        let case = WD_CASE.load(std::sync::atomic::Ordering::Relaxed);
        if case == u64::MAX {
            continue;
        }
        let started = WD_START_MS.load(std::sync::atomic::Ordering::Relaxed);
        let now = t0.elapsed().as_millis() as u64;
        if now.saturating_sub(started) > limit_s * 1000 {
            eprintln!("E57MON-WATCHDOG case={} ran for more than {} s", case, limit_s);
            std::process::exit(99);
        }
    });
    WD_EPOCH.with(|e| *e.borrow_mut() = Some(t0));
}

thread_local! {
    pub static WD_EPOCH: RefCell<Option<Instant>> = RefCell::new(None);
    pub static PANIC_INFO: RefCell<Option<String>> = RefCell::new(None);
    pub static IN_GUARD: std::cell::Cell<u32> = std::cell::Cell::new(0);
}

/// Coverage accounting: what the monitors actually observed.
#[derive(Default)]
pub struct Cover {
    pub keys: BTreeMap<String, u64>,
    pub nums: BTreeMap<String, BTreeSet<u64>>,
}
impl Cover {
    pub fn hit(&mut self, k: &str) {
        *self.keys.entry(k.to_string()).or_insert(0) += 1;
    }
    pub fn add(&mut self, k: &str, n: u64) {
        *self.keys.entry(k.to_string()).or_insert(0) += n;
    }
    pub fn hit_num(&mut self, family: &str, v: u64) {
        self.nums.entry(family.to_string()).or_default().insert(v);
    }
    pub fn to_json(&self) -> J {
        let mut k = J::obj();
        for (a, b) in &self.keys {
            k.put(a, J::i(*b));
        }
        let mut n = J::obj();
        for (a, b) in &self.nums {
            n.put(a, J::Arr(b.iter().map(|x| J::i(*x)).collect()));
        }
        J::obj().set("t", J::s("cover")).set("keys", k).set("nums", n)
    }
}

pub struct Args {
    pub workload: String,
    pub seed: u64,
    pub shard: u64,
    pub shards: u64,
    pub cases: u64,
    pub secs: f64,
    pub out: String,
    pub only: Option<u64>,
    pub tier: String,
    pub kv: BTreeMap<String, String>,
    pub pos: Vec<String>,
}

impl Args {
    pub fn get(&self, k: &str) -> Option<&str> {
        self.kv.get(k).map(|s| s.as_str())
    }
    pub fn get_u64(&self, k: &str, d: u64) -> u64 {
        self.get(k).and_then(|s| s.parse().ok()).unwrap_or(d)
    }
    pub fn flag(&self, k: &str) -> bool {
        self.kv.contains_key(k)
    }
    pub fn thorough(&self) -> bool {
        self.tier == "thorough"
    }
}

fn parse_args() -> Args {
    let mut it = std::env::args().skip(1);
    let workload = it.next().unwrap_or_else(|| "help".into());
    let mut kv = BTreeMap::new();
    let mut pos = Vec::new();
    let rest: Vec<String> = it.collect();
    let mut i = 0;
    while i < rest.len() {
        let a = &rest[i];
        if let Some(k) = a.strip_prefix("--") {
            if let Some((k, v)) = k.split_once('=') {
                kv.insert(k.to_string(), v.to_string());
            } else if i + 1 < rest.len() && !rest[i + 1].starts_with("--") {
                kv.insert(k.to_string(), rest[i + 1].clone());
                i += 1;
            } else {
                kv.insert(k.to_string(), "1".to_string());
            }
        } else {
            pos.push(a.clone());
        }
        i += 1;
    }
    let g = |k: &str, d: u64| kv.get(k).and_then(|s: &String| s.parse().ok()).unwrap_or(d);
    Args {
        workload,
        seed: g("seed", 1),
        shard: g("shard", 0),
        shards: g("shards", 1).max(1),
        cases: g("cases", 100),
        secs: kv.get("secs").and_then(|s| s.parse().ok()).unwrap_or(60.0),
        out: kv.get("out").cloned().unwrap_or_else(|| "/dev/stdout".into()),
        only: kv.get("only").and_then(|s| s.parse().ok()),
        tier: kv.get("tier").cloned().unwrap_or_else(|| "quick".into()),
        kv,
        pos,
    }
}

/// Event sink + journal of one shard.
pub struct Reporter {
    out: Box<dyn Write>,
    journal: Option<std::fs::File>,
    pub workload: String,
    pub seed: u64,
    pub violations: u64,
    pub samples: u64,
    pub max_samples: u64,
    pub start: Instant,
    pub cover: Cover,
    pub stats: BTreeMap<String, u64>,
    seen_sigs: BTreeMap<String, u64>,
    pub verbose: bool,
}

impl Reporter {
    fn new(a: &Args) -> Reporter {
        let out: Box<dyn Write> = if a.out == "/dev/stdout" || a.out == "-" {
            Box::new(std::io::stdout())
        } else {
            Box::new(std::io::BufWriter::new(std::fs::File::create(&a.out).expect("cannot create --out file")))
        };
        let journal = if a.out == "/dev/stdout" || a.out == "-" { None } else { std::fs::File::create(format!("{}.journal", a.out)).ok() };
        Reporter {
            out,
            journal,
            workload: a.workload.clone(),
            seed: a.seed,
            violations: 0,
            samples: 0,
            max_samples: 3,
            start: Instant::now(),
            cover: Cover::default(),
            stats: BTreeMap::new(),
            seen_sigs: BTreeMap::new(),
            verbose: a.only.is_some() || a.flag("verbose"),
        }
    }
    pub fn emit(&mut self, j: J) {
        let _ = writeln!(self.out, "{}", j.dump());
    }
    /// note the case about to run (survives an abort of this process)
    pub fn journal(&mut self, case: u64, note: &str) {
        if let Some(f) = &mut self.journal {
            use std::io::{Seek, SeekFrom};
            let _ = f.seek(SeekFrom::Start(0));
            let line = format!("{{\"case\":{},\"note\":{}}}\n{:200}\n", case, J::s(note).dump(), "");
            let _ = f.write_all(line.as_bytes());
            let _ = f.flush();
        }
    }
    pub fn violation(&mut self, prop: &str, sig: &str, case: u64, detail: &str) {
        self.violations += 1;
        let full = format!("{}/{}", prop, sig);
        let n = self.seen_sigs.entry(full.clone()).or_insert(0);
        *n += 1;
        // keep the log bounded: at most 5 full records per signature, the rest only counted
        if *n <= 5 {
            let j = J::obj()
                .set("t", J::s("viol"))
                .set("prop", J::s(prop))
                .set("sig", J::s(&full))
                .set("workload", J::s(&self.workload))
                .set("seed", J::i(self.seed as i128))
                .set("case", J::i(case as i128))
                .set("detail", J::s(detail));
            self.emit(j);
        }
        if self.verbose {
            eprintln!("VIOL {} case={} :: {}", full, case, detail);
        }
    }
    pub fn viols(&mut self, case: u64, vs: &[scene::Viol]) {
        for v in vs {
            self.violation(v.prop, &v.sig, case, &v.detail);
        }
    }
    pub fn sample(&mut self, j: J) {
        if self.samples < self.max_samples {
            self.samples += 1;
            self.emit(J::obj().set("t", J::s("sample")).set("sample", j));
        }
    }
    pub fn stat(&mut self, k: &str, n: u64) {
        *self.stats.entry(k.to_string()).or_insert(0) += n;
    }
    pub fn stat_max(&mut self, k: &str, n: u64) {
        let e = self.stats.entry(k.to_string()).or_insert(0);
        if n > *e {
            *e = n;
        }
    }
    pub fn inconclusive(&mut self, case: u64, why: &str) {
        self.stat("inconclusive", 1);
        self.emit(J::obj().set("t", J::s("inconclusive")).set("case", J::i(case as i128)).set("why", J::s(why)));
    }
    pub fn finish(&mut self, cases: u64, reason: &str) {
        let mut st = J::obj();
        for (k, v) in &self.stats {
            st.put(k, J::i(*v));
        }
        let mut sc = J::obj();
        for (k, v) in &self.seen_sigs {
            sc.put(k, J::i(*v));
        }
        self.emit(J::obj().set("t", J::s("stats")).set("k", st));
        self.emit(J::obj().set("t", J::s("sigcounts")).set("k", sc));
        let c = self.cover.to_json();
        self.emit(c);
        self.emit(
            J::obj()
                .set("t", J::s("done"))
                .set("cases", J::i(cases as i128))
                .set("reason", J::s(reason))
                .set("violations", J::i(self.violations as i128))
                .set("wall_s", J::Num(self.start.elapsed().as_secs_f64())),
        );
        let _ = self.out.flush();
        self.journal(u64::MAX, "finished");
    }
}

/// Standard case loop: global case index idx = k*shards + shard; stops by count or time.
pub fn run_cases(a: &Args, rep: &mut Reporter, mut f: impl FnMut(u64, u64, &mut Reporter)) -> (u64, &'static str) {
    let wl = rng::hash_str(&a.workload);
    if let Some(idx) = a.only {
        let cs = rng::mix(&[a.seed, wl, idx]);
        rep.journal(idx, "only");
        wd_begin(idx);
        f(idx, cs, rep);
        wd_end();
        return (1, "only");
    }
    let mut done = 0u64;
    let mut k = a.get_u64("start", 0);
    let mut reason = "count";
    loop {
        let idx = k * a.shards + a.shard;
        if idx >= a.cases {
            break;
        }
        if rep.start.elapsed().as_secs_f64() > a.secs {
            reason = "time";
            break;
        }
        let cs = rng::mix(&[a.seed, wl, idx]);
        rep.journal(idx, "");
        let t = Instant::now();
        wd_begin(idx);
        f(idx, cs, rep);
        wd_end();
        let el = t.elapsed().as_secs_f64();
        if el > 2.0 {
            rep.emit(J::obj().set("t", J::s("slow")).set("case", J::i(idx as i128)).set("secs", J::Num(el)));
            rep.stat("slow_cases_over_2s", 1);
        }
        rep.stat_max("max_case_millis", (el * 1000.0) as u64);
        done += 1;
        k += 1;
    }
    (done, reason)
}

pub fn wd_begin(idx: u64) {
    let ms = WD_EPOCH.with(|e| e.borrow().map(|t| t.elapsed().as_millis() as u64).unwrap_or(0));
    WD_START_MS.store(ms, std::sync::atomic::Ordering::Relaxed);
    WD_CASE.store(idx, std::sync::atomic::Ordering::Relaxed);
}
pub fn wd_end() {
    WD_CASE.store(u64::MAX, std::sync::atomic::Ordering::Relaxed);
}

fn install_panic_hook() {
    std::panic::set_hook(Box::new(|info| {
        let loc = info.location().map(|l| format!("{}:{}", l.file().rsplit("/src/").next().unwrap_or(l.file()), l.line())).unwrap_or_else(|| "?".into());
        let msg = if let Some(s) = info.payload().downcast_ref::<&str>() {
            s.to_string()
        } else if let Some(s) = info.payload().downcast_ref::<String>() {
            s.clone()
        } else {
            "non-string panic".to_string()
        };
        let crate_hint = info.location().map(|l| if l.file().contains("/repo/") || l.file().starts_with("src/") { "e57" } else if l.file().contains("harness") { "harness" } else { "dep" }).unwrap_or("?");
        if IN_GUARD.with(|g| g.get()) == 0 {
            eprintln!("HARNESS PANIC outside a guarded call: {}@{} {}", crate_hint, loc, msg);
        }
        PANIC_INFO.with(|p| *p.borrow_mut() = Some(format!("{}@{} {}", crate_hint, loc, msg)));
    }));
}

fn main() {
    let a = parse_args();
    install_panic_hook();
    if !crc::selftest() {
        eprintln!("harness CRC self-test failed");
        std::process::exit(2);
    }
    let mut rep = Reporter::new(&a);
    // generous per-case wall-clock watchdog (typical cases take milliseconds); its firing is never a verdict
    // by itself: the driver re-runs the journaled case alone before calling it non-terminating
    start_watchdog(a.get_u64("case-watchdog", 60));
    match a.workload.as_str() {
        "roundtrip" => w_roundtrip::run(&a, &mut rep),
        "simple" => w_simple::run(&a, &mut rep),
        "pages" => w_pages::run(&a, &mut rep),
        "crc" => w_crc::run(&a, &mut rep),
        "fuzz" => w_fuzz::run(&a, &mut rep),
        "crash" => w_crash::run(&a, &mut rep),
        "fault" => w_fault::run(&a, &mut rep),
        "history" => w_history::run(&a, &mut rep),
        "copy" => w_copy::run(&a, &mut rep),
        "dump" => w_dump::run(&a, &mut rep),
        "selftest" => {
            println!("ok crc");
        }
        _ => {
            eprintln!("usage: e57mon <roundtrip|simple|pages|crc|fuzz|crash|fault|history|copy|dump> [--seed N --shard i --shards n --cases N --secs S --out FILE --tier quick|thorough --only IDX ...]");
            std::process::exit(2);
        }
    }
}
