//! G-MUTATE: structure-aware mutation of valid E57 files. `Walk` locates header fields, the XML
//! text, section headers and packet headers (it is used only to *aim* mutations, never as an
//! oracle). Mutated logical streams are re-paged and all checksums re-sealed with the harness's
//! own CRC so that the mutations reach the parsers; a second family leaves pages unsealed.

use crate::crc::{log_to_phys, logical, paged, phys_to_log, FastCrc, PAGE};
use crate::rng::Rng;

pub struct Walk {
    pub log: Vec<u8>,       // logical stream
    pub xml_log_off: usize, // logical offset of the XML
    pub xml_len: usize,
    pub xml: String,
    pub xml_is_last: bool,
    pub cv_sections: Vec<usize>, // logical offsets of compressed vector section headers
    pub blob_sections: Vec<usize>,
    pub packets: Vec<usize>, // logical offsets of packet headers (all sections)
}

fn u64_at(b: &[u8], o: usize) -> Option<u64> {
    if o + 8 <= b.len() {
        let mut a = [0u8; 8];
        a.copy_from_slice(&b[o..o + 8]);
        Some(u64::from_le_bytes(a))
    } else {
        None
    }
}

/// all `name="digits"` occurrences
fn attr_numbers<'a>(xml: &'a str, name: &str) -> Vec<(usize, usize, u64)> {
    let pat = format!("{}=\"", name);
    let mut out = Vec::new();
    let mut from = 0;
    while let Some(i) = xml[from..].find(&pat) {
        let s = from + i + pat.len();
        if let Some(e) = xml[s..].find('"') {
            if let Ok(v) = xml[s..s + e].parse::<u64>() {
                out.push((s, s + e, v));
            }
            from = s + e;
        } else {
            break;
        }
    }
    out
}

impl Walk {
    pub fn new(img: &[u8]) -> Option<Walk> {
        if img.len() < PAGE || img.len() % PAGE != 0 {
            return None;
        }
        let log = logical(img);
        let xml_phys = u64_at(&log, 24)?;
        let xml_len = u64_at(&log, 32)? as usize;
        if xml_phys as usize >= img.len() {
            return None;
        }
        let xml_log_off = phys_to_log(xml_phys) as usize;
        if xml_log_off.checked_add(xml_len).map_or(true, |e| e > log.len()) {
            return None;
        }
        let xml = String::from_utf8(log[xml_log_off..xml_log_off + xml_len].to_vec()).ok()?;
        // XML is last if only zero padding follows
        let xml_is_last = log[xml_log_off + xml_len..].iter().all(|b| *b == 0);
        let mut cv_sections = Vec::new();
        let mut blob_sections = Vec::new();
        for (_, _, off) in attr_numbers(&xml, "fileOffset") {
            if (off as usize) < img.len() {
                let l = phys_to_log(off) as usize;
                if l.saturating_add(32) <= log.len() {
                    if log[l] == 1 {
                        cv_sections.push(l);
                    } else {
                        blob_sections.push(l);
                    }
                }
            }
        }
        cv_sections.sort();
        cv_sections.dedup();
        blob_sections.sort();
        blob_sections.dedup();
        let mut packets = Vec::new();
        for &s in &cv_sections {
            let sec_len = u64_at(&log, s + 8).unwrap_or(0) as usize;
            let data_phys = u64_at(&log, s + 16).unwrap_or(0);
            if data_phys as usize >= img.len() {
                continue;
            }
            let mut p = phys_to_log(data_phys) as usize;
            let end = s.saturating_add(sec_len).min(log.len());
            let mut guard = 0;
            while p + 4 <= end && guard < 10000 {
                packets.push(p);
                let plen = u16::from_le_bytes([log[p + 2], log[p + 3]]) as usize + 1;
                if plen < 4 {
                    break;
                }
                p += plen;
                guard += 1;
            }
        }
        Some(Walk { log, xml_log_off, xml_len, xml, xml_is_last, cv_sections, blob_sections, packets })
    }

    /// rebuild an image with a replaced XML text (XML must be the last thing in the file)
    pub fn with_xml(&self, xml: &[u8], fc: &FastCrc) -> Vec<u8> {
        let mut log = self.log[..self.xml_log_off].to_vec();
        log.extend_from_slice(xml);
        let mut img = paged(&log, fc);
        let phys_len = img.len() as u64;
        img[16..24].copy_from_slice(&phys_len.to_le_bytes());
        img[32..40].copy_from_slice(&(xml.len() as u64).to_le_bytes());
        fc.seal_page(&mut img, 0);
        img
    }

    pub fn with_log(&self, log: &[u8], fc: &FastCrc) -> Vec<u8> {
        paged(log, fc)
    }
}

pub const HOSTILE_U64: &[u64] = &[
    0, 1, 2, 3, 4, 7, 8, 15, 16, 31, 32, 47, 48, 49, 255, 256, 1019, 1020, 1021, 1023, 1024, 1025, 2047, 2048, 4095, 4096, 65535, 65536, 65537, 1 << 20, (1 << 20) + 1, 1 << 24, 1 << 31, (1 << 31) - 1, 1 << 32,
    (1 << 32) + 1, 1 << 40, 1 << 53, 1 << 62, (1 << 63) - 1, 1 << 63, (1 << 63) + 1, u64::MAX - 16, u64::MAX - 15, u64::MAX - 4, u64::MAX - 3, u64::MAX - 1, u64::MAX, 10 * 1024 * 1024, 10 * 1024 * 1024 + 1, 10 * 1024 * 1024 - 1,
];

pub const HOSTILE_NUM_TEXT: &[&str] = &[
    "0", "1", "-1", "2", "3", "-0", "255", "256", "65535", "65536", "2147483647", "2147483648", "-2147483648", "4294967295", "4294967296", "9223372036854775807", "9223372036854775808", "-9223372036854775808",
    "-9223372036854775809", "18446744073709551615", "18446744073709551616", "NaN", "nan", "inf", "-inf", "INF", "infinity", "1e400", "-1e400", "1e-400", "1e308", "-1e308", "4.9e-324", "0.1", "-0.0", "1e", "", " ", "abc", "0x10", "1 2",
    "99999999999999999999999999999999999999", "1.7976931348623157e308", "3.4028235e38", "3.5e38", "+5", "٣",
];

pub const OPS: &[&str] = &[
    "xml-number", "xml-attr-recordCount", "xml-attr-fileOffset", "xml-attr-length", "xml-type-swap", "xml-drop-attr", "xml-dup-line", "xml-del-line", "xml-swap-lines", "xml-min-gt-max", "xml-all-min-eq-max",
    "xml-proto-empty", "xml-proto-huge", "xml-entities", "xml-deep-nesting", "xml-bad-utf8", "xml-truncate", "xml-limits-hostile", "xml-invalid-state-range", "xml-precision",
    "hdr-field", "cv-header-field", "packet-header", "packet-stream-len", "blob-header", "payload-bits", "splice-sections", "packet-chain-ignored", "packet-big-1bit", "zero-width-all",
    "unsealed-flip", "truncate", "extend", "tiny", "xml-length-huge", "xml-offset-into-crc", "packet-retype-short", "xml-drop-element",
];

fn lines(xml: &str) -> Vec<&str> {
    xml.split_inclusive('\n').collect()
}

fn replace_range(s: &str, a: usize, b: usize, with: &str) -> String {
    let mut o = String::with_capacity(s.len() + with.len());
    o.push_str(&s[..a]);
    o.push_str(with);
    o.push_str(&s[b..]);
    o
}

/// positions of numeric-looking tokens: attribute values and element texts
fn numeric_tokens(xml: &str) -> Vec<(usize, usize)> {
    let b = xml.as_bytes();
    let mut out = Vec::new();
    let mut i = 0;
    while i < b.len() {
        let c = b[i];
        let starts = (c == b'"' || c == b'>') && i + 1 < b.len() && (b[i + 1].is_ascii_digit() || b[i + 1] == b'-' || b[i + 1] == b'.');
        if starts {
            let s = i + 1;
            let mut e = s;
            while e < b.len() && (b[e].is_ascii_digit() || matches!(b[e], b'-' | b'+' | b'.' | b'e' | b'E')) {
                e += 1;
            }
            if e < b.len() && (b[e] == b'"' || b[e] == b'<') && e > s {
                out.push((s, e));
            }
            i = e;
        } else {
            i += 1;
        }
    }
    out
}

pub struct Mutant {
    pub img: Vec<u8>,
    pub op: &'static str,
    pub note: String,
}

/// Apply operator number `opn` (index into OPS) to the seed. Returns None if not applicable.
pub fn mutate(w: &Walk, seed_img: &[u8], opn: usize, r: &mut Rng, fc: &FastCrc) -> Option<Mutant> {
    let op = OPS[opn % OPS.len()];
    let xml = &w.xml;
    let xml_ops = op.starts_with("xml-") && !matches!(op, "xml-length-huge" | "xml-offset-into-crc");
    if xml_ops && !w.xml_is_last {
        return None;
    }
    let mk = |x: String, note: String| Some(Mutant { img: w.with_xml(x.as_bytes(), fc), op, note });
    match op {
        "xml-number" => {
            let toks = numeric_tokens(xml);
            if toks.is_empty() {
                return None;
            }
            let n = 1 + r.usize(3);
            let mut x = xml.clone();
            let mut note = String::new();
            for _ in 0..n {
                let toks = numeric_tokens(&x);
                if toks.is_empty() {
                    break;
                }
                let (a, b) = *r.pick(&toks);
                let with = *r.pick(HOSTILE_NUM_TEXT);
                note.push_str(&format!("[{}->{}]", &x[a..b], with));
                x = replace_range(&x, a, b, with);
            }
            mk(x, note)
        }
        "xml-attr-recordCount" | "xml-attr-fileOffset" | "xml-attr-length" => {
            let name = &op["xml-attr-".len()..];
            let occ = attr_numbers(xml, name);
            if occ.is_empty() {
                return None;
            }
            let (a, b, old) = *r.pick(&occ);
            let v: u64 = match r.usize(6) {
                0 => *r.pick(HOSTILE_U64),
                1 => old.wrapping_add(*r.pick(&[1u64, 2, 3, 4, 8, 16, 32, 1020, 1024])),
                2 => old.wrapping_sub(*r.pick(&[1u64, 2, 3, 4, 8, 16, 32, 1020, 1024])),
                3 if name == "fileOffset" => {
                    // point at another known structure: XML start, another section, a packet
                    let mut c: Vec<usize> = vec![w.xml_log_off, 0, 48];
                    c.extend(&w.cv_sections);
                    c.extend(&w.blob_sections);
                    c.extend(w.packets.iter().take(8));
                    log_to_phys(*r.pick(&c) as u64)
                }
                4 if name == "fileOffset" => (seed_img.len() as u64).wrapping_add(r.below(2048)).wrapping_sub(1024),
                _ => {
                    let k = r.below(64);
                    (1u64 << k).wrapping_add(r.below(3)).wrapping_sub(1)
                }
            };
            mk(replace_range(xml, a, b, &v.to_string()), format!("{} {} -> {}", name, old, v))
        }
        "xml-type-swap" => {
            let pat = "type=\"";
            let occ: Vec<usize> = xml.match_indices(pat).map(|(i, _)| i + pat.len()).collect();
            if occ.is_empty() {
                return None;
            }
            let a = *r.pick(&occ);
            let e = a + xml[a..].find('"')?;
            let with = *r.pick(&["Integer", "Float", "ScaledInteger", "String", "Structure", "Vector", "CompressedVector", "Blob", "Bogus", ""]);
            mk(replace_range(xml, a, e, with), format!("type {} -> {}", &xml[a..e], with))
        }
        "xml-drop-attr" => {
            // remove one attribute (name="value") somewhere
            let occ: Vec<usize> = xml.match_indices("=\"").map(|(i, _)| i).collect();
            if occ.is_empty() {
                return None;
            }
            let eq = *r.pick(&occ);
            let start = xml[..eq].rfind(' ')?;
            let end = eq + 2 + xml[eq + 2..].find('"')? + 1;
            mk(replace_range(xml, start, end, ""), format!("dropped {}", &xml[start..end.min(start + 60)]))
        }
        "xml-dup-line" | "xml-del-line" | "xml-swap-lines" => {
            let ls = lines(xml);
            if ls.len() < 4 {
                return None;
            }
            let i = 1 + r.usize(ls.len() - 2);
            let mut v: Vec<String> = ls.iter().map(|s| s.to_string()).collect();
            let note;
            match op {
                "xml-dup-line" => {
                    let times = *r.pick(&[1usize, 1, 2, 50]);
                    note = format!("dup x{} {}", times, v[i].trim());
                    for _ in 0..times {
                        v.insert(i, v[i].clone());
                    }
                }
                "xml-del-line" => {
                    note = format!("del {}", v[i].trim());
                    v.remove(i);
                }
                _ => {
                    let j = 1 + r.usize(ls.len() - 2);
                    note = format!("swap {} <-> {}", v[i].trim(), v[j].trim());
                    v.swap(i, j);
                }
            }
            mk(v.concat(), note)
        }
        "xml-drop-element" => {
            // a whole element with its content disappears (a pose without rotation, a cloud without
            // prototype, a representation without its blob reference ...)
            const NAMES: &[&str] = &[
                "rotation", "translation", "pose", "prototype", "points", "cartesianBounds", "sphericalBounds", "indexBounds", "intensityLimits", "colorLimits", "acquisitionStart", "acquisitionEnd", "creationDateTime", "dateTimeValue",
                "visualReferenceRepresentation", "pinholeRepresentation", "sphericalRepresentation", "cylindricalRepresentation", "jpegImage", "pngImage", "imageMask", "data3D", "images2D", "guid", "formatName", "versionMajor", "w", "x",
                "associatedData3DGuid", "originalGuids", "sensorVendor", "temperature",
            ];
            let start = r.usize(NAMES.len());
            let mut done = None;
            for k in 0..NAMES.len() {
                let name = NAMES[(start + k) % NAMES.len()];
                let open = format!("<{}", name);
                let close = format!("</{}>", name);
                let occ: Vec<usize> = xml.match_indices(&open).map(|(i, _)| i).filter(|i| matches!(xml.as_bytes().get(i + open.len()), Some(b' ') | Some(b'>') | Some(b'/'))).collect();
                if occ.is_empty() {
                    continue;
                }
                let a = *r.pick(&occ);
                if let Some(e) = xml[a..].find(&close) {
                    done = Some((a, a + e + close.len(), name));
                    break;
                }
            }
            let (a, b, name) = done?;
            mk(replace_range(xml, a, b, ""), format!("element {} removed", name))
        }
        "xml-min-gt-max" => {
            let occ = attr_like(xml, "minimum");
            if occ.is_empty() {
                return None;
            }
            let (a, b) = *r.pick(&occ);
            let with = *r.pick(&["9223372036854775807", "1e300", "inf", "256", "2"]);
            mk(replace_range(xml, a, b, with), format!("minimum -> {}", with))
        }
        "xml-all-min-eq-max" => {
            // every minimum/maximum of the prototype becomes the same constant: all widths zero
            let mut x = xml.clone();
            for name in ["minimum", "maximum"] {
                // single pass rebuild (the document may hold tens of thousands of attributes)
                let occ = attr_like(&x, name);
                let mut y = String::with_capacity(x.len());
                let mut at = 0;
                for (a, b) in occ {
                    y.push_str(&x[at..a]);
                    y.push('5');
                    at = b;
                }
                y.push_str(&x[at..]);
                x = y;
            }
            mk(x, "all min=max=5".into())
        }
        "zero-width-all" => {
            if !w.xml_is_last {
                return None;
            }
            // prototype replaced by zero-width integers only + huge record count
            let ps = xml.find("<prototype")?;
            let pe = xml[ps..].find("</prototype>")? + ps;
            let open_end = xml[ps..].find('>')? + ps + 1;
            let n = 1 + r.usize(3);
            let mut body = String::new();
            for i in 0..n {
                let names = ["cartesianX", "cartesianY", "cartesianZ"];
                body.push_str(&format!("<{} type=\"Integer\" minimum=\"7\" maximum=\"7\"/>\n", names[i % 3]));
            }
            let mut x = replace_range(xml, open_end, pe, &body);
            if let Some((a, b, _)) = attr_numbers(&x, "recordCount").first().cloned() {
                let rc = *r.pick(&["5", "100000", "4294967296", "18446744073709551615"]);
                x = replace_range(&x, a, b, rc);
            }
            mk(x, format!("{} zero-width records", n))
        }
        "xml-proto-empty" => {
            let ps = xml.find("<prototype")?;
            let pe = xml[ps..].find("</prototype>")? + ps;
            let open_end = xml[ps..].find('>')? + ps + 1;
            mk(replace_range(xml, open_end, pe, ""), "empty prototype".into())
        }
        "xml-proto-huge" if r.chance(1, 3) => {
            // the whole prototype replaced by tens of thousands of records that need no bits at all
            let ps = xml.find("<prototype")?;
            let open_end = xml[ps..].find('>')? + ps + 1;
            let pe = xml[open_end..].find("</prototype>")? + open_end;
            let n = *r.pick(&[65535usize, 65536, 65537, 70003]);
            let mut body = String::with_capacity(n * 50);
            body.push_str("<cartesianX type=\"Integer\" minimum=\"1\" maximum=\"1\"/><cartesianY type=\"Integer\" minimum=\"2\" maximum=\"2\"/><cartesianZ type=\"ScaledInteger\" minimum=\"3\" maximum=\"3\" scale=\"0.5\"/>\n");
            for i in 0..n {
                body.push_str(&format!("<x{} type=\"Integer\" minimum=\"5\" maximum=\"5\"/>\n", i));
            }
            mk(replace_range(xml, open_end, pe, &body), format!("prototype replaced by {} zero-width records", n + 3))
        }
        "xml-proto-huge" => {
            let ps = xml.find("<prototype")?;
            let open_end = xml[ps..].find('>')? + ps + 1;
            let n = *r.pick(&[100usize, 1000, 20000]);
            let mut body = String::new();
            for i in 0..n {
                body.push_str(&format!("<x{} type=\"Integer\" minimum=\"0\" maximum=\"{}\"/>\n", i, r.below(3)));
            }
            mk(replace_range(xml, open_end, open_end, &body), format!("{} extra records", n))
        }
        "xml-entities" if r.bool() => {
            // flat expansion: ONE large entity referenced thousands of times from text content. No nesting, so a
            // parser's entity-depth guard does not see it; the expanded text is sizes of magnitude bigger than the input
            let decl_end = xml.find("?>").map(|i| i + 2).unwrap_or(0);
            let size = *r.pick(&[64usize * 1024, 512 * 1024]);
            let refs = *r.pick(&[1500usize, 6000]);
            let mut dtd = String::with_capacity(size + 100);
            dtd.push_str("\n<!DOCTYPE e57Root [\n<!ENTITY big \"");
            for _ in 0..size {
                dtd.push('x');
            }
            dtd.push_str("\">\n]>\n");
            let mut x = replace_range(xml, decl_end, decl_end, &dtd);
            let tag = *r.pick(&["<guid type=\"String\">", "<coordinateMetadata type=\"String\">", "<name type=\"String\">"]);
            let at = match x.find(tag) {
                Some(i) => i + tag.len(),
                None => x.find("<guid type=\"String\">")? + "<guid type=\"String\">".len(),
            };
            let mut body = String::with_capacity(refs * 5);
            for _ in 0..refs {
                body.push_str("&big;");
            }
            x = replace_range(&x, at, at, &body);
            mk(x, format!("flat entity expansion {} bytes x {}", size, refs))
        }
        "xml-entities" => {
            let decl_end = xml.find("?>").map(|i| i + 2).unwrap_or(0);
            let mut dtd = String::from("\n<!DOCTYPE e57Root [\n<!ENTITY a \"aaaaaaaaaaaaaaaaaaaaaaaaaaaaaaaaaaaaaaaaaaaaaaaaaaaaaaaaaaaaaaaa\">\n");
            let mut prev = 'a';
            for c in ['b', 'c', 'd', 'e', 'f', 'g', 'h', 'i'] {
                dtd.push_str(&format!("<!ENTITY {} \"&{};&{};&{};&{};&{};&{};&{};&{};\">\n", c, prev, prev, prev, prev, prev, prev, prev, prev));
                prev = c;
            }
            dtd.push_str("]>\n");
            let mut x = replace_range(xml, decl_end, decl_end, &dtd);
            // use it inside the guid
            if let Some(i) = x.find("<guid type=\"String\">") {
                let at = i + "<guid type=\"String\">".len();
                x = replace_range(&x, at, at, "&i;");
            }
            mk(x, "billion laughs".into())
        }
        "xml-deep-nesting" => {
            let depth = *r.pick(&[100usize, 1000, 5000, 50000]);
            let at = xml.rfind("</e57Root>")?;
            let mut body = String::new();
            for _ in 0..depth {
                body.push_str("<n type=\"Structure\">");
            }
            for _ in 0..depth {
                body.push_str("</n>");
            }
            mk(replace_range(xml, at, at, &body), format!("nesting {}", depth))
        }
        "xml-bad-utf8" => {
            if xml.is_empty() {
                return None;
            }
            let mut b = xml.as_bytes().to_vec();
            let i = r.usize(b.len());
            b[i] = *r.pick(&[0xFFu8, 0xC0, 0x80, 0xED, 0xF8, 0x00]);
            Some(Mutant { img: w.with_xml(&b, fc), op, note: format!("byte {} -> {:#x}", i, b[i]) })
        }
        "xml-truncate" => {
            let mut cut = r.usize(xml.len());
            while !xml.is_char_boundary(cut) {
                cut -= 1;
            }
            mk(xml[..cut].to_string(), format!("cut at {}", cut))
        }
        "xml-limits-hostile" => {
            // inject / overwrite limits with hostile numbers and types
            let at = xml.find("<points ")?;
            let vals = ["NaN", "inf", "-inf", "1e400", "0", "1", "-1", "9223372036854775807", "-9223372036854775808", "abc", ""];
            let types = ["Float", "Integer", "ScaledInteger", "Float\" precision=\"single", "String"];
            let mut inj = String::from("<intensityLimits type=\"Structure\">\n");
            inj.push_str(&format!("<intensityMinimum type=\"{}\">{}</intensityMinimum>\n", r.pick(&types), r.pick(&vals)));
            inj.push_str(&format!("<intensityMaximum type=\"{}\">{}</intensityMaximum>\n", r.pick(&types), r.pick(&vals)));
            inj.push_str("</intensityLimits>\n<colorLimits type=\"Structure\">\n");
            for c in ["Red", "Green", "Blue"] {
                inj.push_str(&format!("<color{}Minimum type=\"{}\">{}</color{}Minimum>\n", c, r.pick(&types), r.pick(&vals), c));
                inj.push_str(&format!("<color{}Maximum type=\"{}\">{}</color{}Maximum>\n", c, r.pick(&types), r.pick(&vals), c));
            }
            inj.push_str("</colorLimits>\n");
            mk(replace_range(xml, at, at, &inj), "hostile limits injected before <points>".into())
        }
        "xml-invalid-state-range" => {
            // widen the range of a state/flag record so that out-of-set values become decodable
            let names = ["cartesianInvalidState", "sphericalInvalidState", "isColorInvalid", "isIntensityInvalid", "isTimeStampInvalid", "rowIndex", "columnIndex"];
            let cands: Vec<usize> = names.iter().filter_map(|n| xml.find(&format!("<{} ", n))).collect();
            if cands.is_empty() {
                return None;
            }
            let s = *r.pick(&cands);
            let e = s + xml[s..].find('>')?;
            let seg = &xml[s..e];
            let mx = seg.find("maximum=\"")? + 9;
            let mxe = mx + seg[mx..].find('"')?;
            let with = *r.pick(&["3", "7", "255", "-1"]);
            mk(replace_range(xml, s + mx, s + mxe, with), format!("state maximum -> {}", with))
        }
        "xml-precision" => {
            let occ: Vec<usize> = xml.match_indices("type=\"Float\"").map(|(i, _)| i + 12).collect();
            if occ.is_empty() {
                return None;
            }
            let a = *r.pick(&occ);
            let with = *r.pick(&[" precision=\"single\"", " precision=\"double\"", " precision=\"half\"", " precision=\"\""]);
            mk(replace_range(xml, a, a, with), format!("inserted{}", with))
        }
        "hdr-field" => {
            let mut log = w.log.clone();
            let (off, len) = *r.pick(&[(0usize, 8usize), (8, 4), (12, 4), (16, 8), (24, 8), (32, 8), (40, 8)]);
            let v = *r.pick(HOSTILE_U64);
            let bytes = v.to_le_bytes();
            log[off..off + len].copy_from_slice(&bytes[..len]);
            Some(Mutant { img: w.with_log(&log, fc), op, note: format!("header@{} <- {}", off, v) })
        }
        "xml-length-huge" => {
            let mut log = w.log.clone();
            let v: u64 = *r.pick(&[10 * 1024 * 1024u64, 10 * 1024 * 1024 - 1, 10 * 1024 * 1024 + 1, 1 << 30, 1 << 27, 1 << 28, 3 << 28, u64::MAX, (w.xml_len as u64) + 1, (w.xml_len as u64).saturating_sub(1), (log.len() - w.xml_log_off) as u64, (log.len() - w.xml_log_off) as u64 + 1]);
            log[32..40].copy_from_slice(&v.to_le_bytes());
            let mut note = format!("xml_length <- {}", v);
            if r.bool() {
                // the declared file length is raised along with it: the two header fields are consistent with each
                // other, only the device is not that long
                let pl = *r.pick(&[v, v.saturating_add(4096), v.saturating_mul(2), u64::MAX, (v / 1024).saturating_add(8).saturating_mul(1024)]);
                log[16..24].copy_from_slice(&pl.to_le_bytes());
                note = format!("{}, phys_length <- {}", note, pl);
            }
            Some(Mutant { img: w.with_log(&log, fc), op, note })
        }
        "xml-offset-into-crc" => {
            let mut log = w.log.clone();
            let pages = (seed_img.len() / PAGE) as u64;
            let v: u64 = r.below(pages + 1) * PAGE as u64 + *r.pick(&[1020u64, 1021, 1022, 1023, 1019, 0, 1]);
            log[24..32].copy_from_slice(&v.to_le_bytes());
            Some(Mutant { img: w.with_log(&log, fc), op, note: format!("xml_offset <- {}", v) })
        }
        "cv-header-field" => {
            if w.cv_sections.is_empty() {
                return None;
            }
            let s = *r.pick(&w.cv_sections);
            let mut log = w.log.clone();
            match r.usize(5) {
                0 => {
                    log[s] = *r.pick(&[0u8, 2, 255]);
                }
                1 => {
                    let i = 1 + r.usize(7);
                    log[s + i] = 1 + r.usize(255) as u8; // reserved bytes
                }
                k => {
                    let off = s + 8 * (k - 1);
                    let old = u64_at(&log, off).unwrap_or(0);
                    let v = match r.usize(4) {
                        0 => *r.pick(HOSTILE_U64),
                        1 => old.wrapping_add(*r.pick(&[1u64, 2, 3, 4, 6, 8, 32, 1020, 1024])),
                        2 => old.wrapping_sub(*r.pick(&[1u64, 2, 3, 4, 6, 8, 32, 1020, 1024])),
                        _ => log_to_phys(r.below(log.len() as u64)),
                    };
                    log[off..off + 8].copy_from_slice(&v.to_le_bytes());
                }
            }
            Some(Mutant { img: w.with_log(&log, fc), op, note: format!("cv header @{}", s) })
        }
        "packet-header" | "packet-stream-len" => {
            if w.packets.is_empty() {
                return None;
            }
            let p = *r.pick(&w.packets);
            let mut log = w.log.clone();
            if p + 8 > log.len() {
                return None;
            }
            if op == "packet-header" {
                match r.usize(4) {
                    0 => log[p] = *r.pick(&[0u8, 2, 3, 255]),
                    1 => log[p + 1] = r.u64() as u8,
                    2 => {
                        let v = *r.pick(&[0u16, 1, 2, 3, 4, 5, 7, 8, 15, 16, 17, 0xFFFF, 0xFFFE, 0xFFFC, 0xFFFB, 0x7FFF, 0x8000]);
                        log[p + 2..p + 4].copy_from_slice(&v.to_le_bytes());
                    }
                    _ => {
                        let v = *r.pick(&[0u16, 1, 2, 255, 0xFFFF, 1000]);
                        log[p + 4..p + 6].copy_from_slice(&v.to_le_bytes());
                    }
                }
            } else {
                let count = u16::from_le_bytes([log[p + 4], log[p + 5]]) as usize;
                if count == 0 || p + 6 + 2 * count > log.len() {
                    return None;
                }
                let i = r.usize(count);
                let v = *r.pick(&[0u16, 1, 2, 3, 0xFFFF, 0x8000, 0x7FFF, 1020, 1024]);
                log[p + 6 + 2 * i..p + 8 + 2 * i].copy_from_slice(&v.to_le_bytes());
            }
            Some(Mutant { img: w.with_log(&log, fc), op, note: format!("packet @{}", p) })
        }
        "packet-retype-short" => {
            // a data packet becomes an index (16 byte header) or ignored (4 byte header) packet whose length
            // field is valid (multiple of 4) but shorter than / equal to / just above its own header
            if w.packets.is_empty() {
                return None;
            }
            let p = *r.pick(&w.packets);
            let mut log = w.log.clone();
            if p + 16 > log.len() {
                return None;
            }
            let index = r.bool();
            log[p] = if index { 0 } else { 2 };
            log[p + 1] = 0;
            let plen: u16 = *r.pick(&[4u16, 8, 12, 16, 20, 32]);
            log[p + 2..p + 4].copy_from_slice(&(plen - 1).to_le_bytes());
            if index {
                // entry count, index level arbitrary; reserved bytes must be zero for the header to parse
                log[p + 4] = 1;
                log[p + 5] = 0;
                log[p + 6] = 0;
                for b in log[p + 7..p + 16].iter_mut() {
                    *b = 0;
                }
            }
            Some(Mutant { img: w.with_log(&log, fc), op, note: format!("packet @{} -> {} packet of length {}", p, if index { "index" } else { "ignored" }, plen) })
        }
        "blob-header" => {
            if w.blob_sections.is_empty() {
                return None;
            }
            let s = *r.pick(&w.blob_sections);
            let mut log = w.log.clone();
            if r.chance(1, 4) {
                log[s] = *r.pick(&[1u8, 2, 255]);
            } else {
                let v = *r.pick(HOSTILE_U64);
                log[s + 8..s + 16].copy_from_slice(&v.to_le_bytes());
            }
            Some(Mutant { img: w.with_log(&log, fc), op, note: format!("blob header @{}", s) })
        }
        "payload-bits" => {
            let mut log = w.log.clone();
            let lo = 48usize;
            let hi = w.xml_log_off.max(lo + 1).min(log.len());
            if hi <= lo {
                return None;
            }
            let n = 1 + r.usize(16);
            for _ in 0..n {
                let i = lo + r.usize(hi - lo);
                log[i] ^= 1 << r.usize(8);
            }
            Some(Mutant { img: w.with_log(&log, fc), op, note: format!("{} bit flips in the binary sections", n) })
        }
        "splice-sections" => {
            let mut all: Vec<usize> = w.cv_sections.clone();
            all.extend(&w.blob_sections);
            all.extend(w.packets.iter().take(6));
            if all.len() < 2 {
                return None;
            }
            let a = *r.pick(&all);
            let b = *r.pick(&all);
            let n = *r.pick(&[16usize, 32, 64, 256]);
            let mut log = w.log.clone();
            if a + n > log.len() || b + n > log.len() {
                return None;
            }
            let src = log[a..a + n].to_vec();
            log[b..b + n].copy_from_slice(&src);
            Some(Mutant { img: w.with_log(&log, fc), op, note: format!("copied {} bytes {} -> {}", n, a, b) })
        }
        "packet-chain-ignored" => {
            // the data area of a section becomes a chain of 4-byte ignored packets up to the end of the stream
            if w.packets.is_empty() {
                return None;
            }
            let p = w.packets[0];
            let mut log = w.log.clone();
            let extra_pages = *r.pick(&[0usize, 4, 64]);
            let xml_copy = log[w.xml_log_off..w.xml_log_off + w.xml_len].to_vec();
            let _ = xml_copy;
            let end = w.xml_log_off.min(log.len());
            let mut i = p;
            while i + 4 <= end {
                log[i] = 2;
                log[i + 1] = 0;
                log[i + 2] = 3;
                log[i + 3] = 0;
                i += 4;
            }
            let _ = extra_pages;
            Some(Mutant { img: w.with_log(&log, fc), op, note: format!("ignored packet chain from {} to {}", p, end) })
        }
        "packet-big-1bit" => {
            // first packet claims maximal stream lengths
            if w.packets.is_empty() {
                return None;
            }
            let p = w.packets[0];
            let mut log = w.log.clone();
            if p + 8 > log.len() {
                return None;
            }
            let count = u16::from_le_bytes([log[p + 4], log[p + 5]]) as usize;
            log[p + 2..p + 4].copy_from_slice(&0xFFFFu16.to_le_bytes());
            for i in 0..count {
                if p + 8 + 2 * i <= log.len() {
                    log[p + 6 + 2 * i..p + 8 + 2 * i].copy_from_slice(&0xFFFFu16.to_le_bytes());
                }
            }
            Some(Mutant { img: w.with_log(&log, fc), op, note: "all stream lengths 65535".into() })
        }
        "unsealed-flip" => {
            let mut img = seed_img.to_vec();
            let n = 1 + r.usize(8);
            for _ in 0..n {
                let i = r.usize(img.len());
                img[i] ^= 1 << r.usize(8);
            }
            Some(Mutant { img, op, note: format!("{} raw bit flips", n) })
        }
        "truncate" => {
            let img = seed_img.to_vec();
            let cut = match r.usize(4) {
                0 => (r.usize(img.len() / PAGE + 1)) * PAGE,
                1 => r.usize(49),
                _ => r.usize(img.len()),
            };
            Some(Mutant { img: img[..cut.min(img.len())].to_vec(), op, note: format!("cut to {}", cut) })
        }
        "extend" => {
            let mut img = seed_img.to_vec();
            let n = *r.pick(&[1usize, 4, 1023, 1024, 1025, 4096]);
            let fill = *r.pick(&[0u8, 0xFF, 0x41]);
            img.extend(std::iter::repeat(fill).take(n));
            if r.bool() && img.len() % PAGE == 0 {
                fc.seal(&mut img);
            }
            Some(Mutant { img, op, note: format!("extended by {}", n) })
        }
        "tiny" => {
            let n = *r.pick(&[0usize, 1, 7, 8, 16, 39, 40, 47, 48, 49, 1023, 1024]);
            let mut img = seed_img[..n.min(seed_img.len())].to_vec();
            if r.bool() {
                img = r.bytes(n);
            }
            Some(Mutant { img, op, note: format!("{} bytes", n) })
        }
        _ => None,
    }
}

/// attribute values for `name="..."` (any content)
fn attr_like(xml: &str, name: &str) -> Vec<(usize, usize)> {
    let pat = format!("{}=\"", name);
    let mut out = Vec::new();
    let mut from = 0;
    while let Some(i) = xml[from..].find(&pat) {
        let s = from + i + pat.len();
        if let Some(e) = xml[s..].find('"') {
            out.push((s, s + e));
            from = s + e;
        } else {
            break;
        }
    }
    out
}
